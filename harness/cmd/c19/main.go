// Worker for C19: the proxy plug-in is transparent. Metamorphic oracle: the same request is sent
// (a) directly to the backend and (b) through a peer running plugin/proxy; result bytes, status
// triple, reply metadata, reply body codec, backend invocation count and the backend's view of the
// request must agree (plus the real-IP rule). Failure scenarios check that a backend connection
// failure surfaces as 502 on that proxied call only.
package main

import (
	"bytes"
	"encoding/json"
	"flag"
	"fmt"
	"io/ioutil"
	"os"
	"sort"
	"strings"
	"sync/atomic"
	"time"

	erpc "github.com/henrylee2cn/erpc/v6"

	"verifharness/bed"
	"verifharness/core"
	"verifharness/protos"
	"verifharness/pxy"
	"verifharness/wire"
)

var (
	prop   = flag.String("prop", "C19", "")
	tier   = flag.String("tier", "quick", "")
	seed   = flag.Int64("seed", 1, "")
	batch  = flag.Int("batch", 0, "")
	nbatch = flag.Int("nbatch", 1, "")
	replay = flag.String("replay", "", "")
)

const watchdog = 90 * time.Second

// Spec is one request (sent directly and through the proxy).
type Spec struct {
	Op       string            `json:"op"`
	Backend  int               `json:"backend"`
	Kind     string            `json:"kind"` // bytes (backend's unknown handler), rbytes (registered), json, xml, form, plain, pb
	Method   string            `json:"method"`
	Classes  map[string]string `json:"classes"` // dimension -> generator class (non-baseline only)
	Codec    byte              `json:"codec"`
	Body     []byte            `json:"-"`
	BodyLen  int               `json:"body_len"`
	Tok      string            `json:"tok,omitempty"`
	Pay      string            `json:"-"`
	N        int               `json:"n,omitempty"`
	Meta     []pxy.KV          `json:"-"`
	NMeta    int               `json:"n_meta"`
	Pipe     string            `json:"pipe,omitempty"`
	ResultAs string            `json:"result_as"`
	Stat     *protos.Triple    `json:"handler_status,omitempty"`
	RMeta    []pxy.KV          `json:"-"`
	RAdd     bool              `json:"reply_meta_add,omitempty"`
	RCodec   byte              `json:"reply_codec_set,omitempty"`
	Wish     byte              `json:"accept_body_codec_wish,omitempty"` // erpc.WithAcceptBodyCodec (0 = no wish)
	Reply    string            `json:"reply_mode,omitempty"`
	SessID   string            `json:"session_id_class,omitempty"` // how the proxy's downstream session got an id of its own
	Class    string            `json:"class"`
	Topo     string            `json:"topology"`
}

func prefixOf(b int) string {
	if b == 1 {
		return "/b"
	}
	return "/a"
}

const alnum = "abcdefghijklmnopqrstuvwxyzABCDEFGHIJKLMNOPQRSTUVWXYZ0123456789"

func alnumBytes(r *core.Rand, n int) []byte {
	b := make([]byte, n)
	for i := range b {
		b[i] = alnum[r.Intn(len(alnum))]
	}
	return b
}

// dims lists the generator classes per dimension. tame = subset used with the non-raw protocols
// (their own framing defects are the business of C05, not of this property).
type dimTable struct {
	name    string
	classes []string
	tame    []string
}

var callDims = []dimTable{
	{"method", []string{"nested", "long", "dots-dashes", "upper", "utf8", "query", "registered"}, []string{"nested", "registered"}},
	{"body", []string{"empty", "one", "255", "256", "4k", "64k", "300k", "binary", "zeros"}, []string{"one", "255", "4k"}},
	{"codec", []string{"json", "protobuf", "form", "xml", "plain", "thrift", "unregistered"}, []string{"json", "plain"}},
	{"typed", []string{"json", "xml", "form", "plain", "pb", "json-accept-xml"}, []string{"json"}},
	{"result", []string{"typed"}, []string{"typed"}},
	{"meta", []string{"only-pid", "dup-keys", "punct", "utf8", "empty-value", "many", "long-value", "preset-realip", "dup-realip", "case-variants"}, []string{"only-pid", "dup-keys", "preset-realip"}},
	{"pipe", []string{"gzip", "gzip-md5"}, nil},
	{"status", []string{"404", "500", "502", "custom", "negative", "big", "code-99", "code-200", "handler-100", "handler-102", "handler-105", "handler-150", "handler-199",
		"msg-empty", "msg-cause-empty", "msg-punct", "msg-utf8", "msg-long", "cause-empty", "cause-punct", "cause-utf8", "cause-long"}, []string{"404", "500", "custom", "handler-102"}},
	{"rmeta", []string{"none", "dup-set", "dup-add", "punct", "utf8", "empty-value", "many", "long-value", "request-key", "realip-key"}, []string{"none", "dup-add"}},
	{"rcodec", []string{"bytes-sets-xml", "json-sets-xml"}, nil},
	{"reply", []string{"empty", "big"}, []string{"empty"}},
	{"accept", []string{"bytes-accept-xml", "accept-unregistered", "accept-garbage"}, []string{"bytes-accept-xml"}},
	{"sessid", []string{"postaccept", "setid-goroutine", "setid-handler", "setid-changed", "id-address-like", "id-punct", "postaccept+preset-realip", "setid-goroutine+preset-realip"}, []string{"postaccept", "setid-goroutine"}},
}

var pushDims = []dimTable{
	{"method", []string{"nested", "long", "dots-dashes", "upper", "utf8", "query"}, []string{"nested"}},
	{"body", []string{"empty", "one", "255", "256", "4k", "64k", "300k", "binary", "zeros"}, []string{"one", "255", "4k"}},
	{"codec", []string{"json", "protobuf", "form", "xml", "plain", "thrift", "unregistered"}, []string{"json", "plain"}},
	{"typed", []string{"json", "xml", "plain", "pb"}, []string{"json"}},
	{"meta", []string{"only-pid", "dup-keys", "punct", "utf8", "empty-value", "many", "long-value", "preset-realip", "dup-realip", "case-variants"}, []string{"only-pid", "dup-keys", "preset-realip"}},
	{"pipe", []string{"gzip", "gzip-md5"}, nil},
	{"pstatus", []string{"handler-error"}, []string{"handler-error"}},
	{"accept", []string{"push-accept-xml", "push-accept-unregistered"}, []string{"push-accept-xml"}},
	{"sessid", []string{"postaccept", "setid-goroutine", "setid-handler", "setid-changed", "id-address-like", "id-punct", "postaccept+preset-realip", "setid-goroutine+preset-realip"}, []string{"postaccept", "setid-goroutine"}},
}

// ---- the reply-codec cell: request codec R x accept-body-codec wish Q x what the backend handler does ----
//
// The caller encodes the request in codec R and wishes the reply in codec Q (erpc.WithAcceptBodyCodec). The
// backend handler leaves the choice to the framework (which honours a wish for a registered codec), or sets
// the reply codec itself: to R (what a backend that does not know Q ends up with as well), to Q, or to a
// third codec T. Typed kinds are decoded by the caller with the codec the reply is labelled with, so a
// label that does not match the bytes shows as another status / result; raw kinds show it as another codec.

type wishParam struct {
	kind  string
	r, q  byte // request codec (raw kinds only: typed kinds have the codec of their kind), wish (0 = none)
	rc    byte // codec set by the backend handler (0 = left to the framework)
	as    string
	reply string
}

var wishCells = []struct{ kind, r, q, t string }{
	{"bytes", "json", "plain", "xml"},  // R = the process default codec
	{"bytes", "plain", "json", "form"}, // Q = the process default codec
	{"bytes", "xml", "form", "json"},   // T = the process default codec
	{"rbytes", "xml", "json", "plain"},
	{"json", "json", "xml", "form"},
	{"json", "json", "form", "xml"},
	{"xml", "xml", "json", "form"},
	{"form", "form", "xml", "json"},
	{"plain", "plain", "json", "xml"},
	{"pb", "protobuf", "json", ""},
}

var (
	wishTable = map[string]wishParam{}
	wishAll   []string
	wishTame  = []string{"bytes.json-wants-plain.honoured", "bytes.json-wants-plain.sets-request", "bytes.json-wants-plain.sets-third",
		"json.json-wants-xml.sets-request.typed", "json.json-wants-xml.sets-third.typed", "json.json-wants-none.sets-request.typed"}
)

func init() {
	add := func(kind, r, qname string, q byte, how string, rc byte, as, reply string) {
		name := kind + "." + r + "-wants-" + qname + "." + how
		if as != "" {
			name += "." + as
		}
		if reply != "" {
			name += "." + reply + "-reply"
		}
		if _, dup := wishTable[name]; dup {
			return
		}
		wishTable[name] = wishParam{kind: kind, r: codecOf(r), q: q, rc: rc, as: as, reply: reply}
		wishAll = append(wishAll, name)
	}
	for _, c := range wishCells {
		raw := c.kind == "bytes" || c.kind == "rbytes"
		r, q := codecOf(c.r), codecOf(c.q)
		hows := []struct {
			how string
			rc  byte
		}{{"honoured", 0}, {"sets-request", r}, {"sets-wish", q}}
		if c.t != "" {
			hows = append(hows, struct {
				how string
				rc  byte
			}{"sets-third", codecOf(c.t)})
		}
		for _, h := range hows {
			if raw {
				add(c.kind, c.r, c.q, q, h.how, h.rc, "", "")
				continue
			}
			add(c.kind, c.r, c.q, q, h.how, h.rc, "typed", "")
			if h.how == "honoured" || h.how == "sets-request" {
				// the same cell with the caller taking the reply as raw bytes
				add(c.kind, c.r, c.q, q, h.how, h.rc, "bytes", "")
			}
		}
	}
	// no wish and the handler names the request's codec; a wish for the request's own codec and the handler
	// answers in another one; a wish for a codec nobody has registered and the handler sets a codec
	for _, c := range wishCells[:1] {
		add(c.kind, c.r, "unregistered", 201, "sets-request", codecOf(c.r), "", "")
		add(c.kind, c.r, "unregistered", 201, "sets-third", codecOf(c.t), "", "")
		// an empty reply body still carries the backend's codec
		add(c.kind, c.r, c.q, codecOf(c.q), "sets-request", codecOf(c.r), "", "empty")
		add(c.kind, c.r, c.q, codecOf(c.q), "sets-third", codecOf(c.t), "", "empty")
	}
	for _, i := range []int{0, 1, 4, 8} {
		c := wishCells[i]
		as := "typed"
		if c.kind == "bytes" {
			as = ""
		}
		add(c.kind, c.r, "none", 0, "sets-request", codecOf(c.r), as, "")
		add(c.kind, c.r, "same", codecOf(c.r), "sets-third", codecOf(c.t), as, "")
	}
	for _, n := range wishTame {
		if _, ok := wishTable[n]; !ok {
			panic("wish class " + n)
		}
	}
	callDims = append(callDims, dimTable{"wish", wishAll, wishTame})
}

func statusOf(class string) *protos.Triple {
	switch class {
	case "404":
		return &protos.Triple{Code: 404, Msg: "Not Found", Cause: "no such thing"}
	case "500":
		return &protos.Triple{Code: 500, Msg: "Internal Server Error", Cause: "backend says no"}
	case "502":
		return &protos.Triple{Code: 502, Msg: "Bad Gateway", Cause: "upstream of the backend"}
	case "custom":
		return &protos.Triple{Code: 1001, Msg: "custom failure", Cause: "because"}
	case "negative":
		return &protos.Triple{Code: -1, Msg: "Unknown Error", Cause: "neg"}
	case "big":
		return &protos.Triple{Code: 2147483647, Msg: "max", Cause: "c"}
	case "code-99":
		return &protos.Triple{Code: 99, Msg: "ninety-nine", Cause: "c"}
	case "code-200":
		return &protos.Triple{Code: 200, Msg: "two hundred", Cause: "c"}
	case "handler-100":
		return &protos.Triple{Code: 100, Msg: "Wrong Connection", Cause: "handler says so"}
	case "handler-102":
		return &protos.Triple{Code: 102, Msg: "Connection Closed", Cause: "handler says so"}
	case "handler-105":
		return &protos.Triple{Code: 105, Msg: "Dial Failed", Cause: "handler says so"}
	case "handler-150":
		return &protos.Triple{Code: 150, Msg: "application code 150", Cause: "handler says so"}
	case "handler-199":
		return &protos.Triple{Code: 199, Msg: "application code 199", Cause: "handler says so"}
	case "msg-empty":
		return &protos.Triple{Code: 1001, Msg: "", Cause: "cause only"}
	case "msg-cause-empty":
		return &protos.Triple{Code: 1001, Msg: "", Cause: ""}
	case "msg-punct":
		return &protos.Triple{Code: 1001, Msg: `a&b=c%d+e f"g\h`, Cause: "c"}
	case "msg-utf8":
		return &protos.Triple{Code: 1001, Msg: "größe 尺寸 ✓", Cause: "c"}
	case "msg-long":
		return &protos.Triple{Code: 1001, Msg: strings.Repeat("long message ", 160), Cause: "c"}
	case "cause-empty":
		return &protos.Triple{Code: 1001, Msg: "m", Cause: ""}
	case "cause-utf8":
		return &protos.Triple{Code: 1001, Msg: "m", Cause: "größe 尺寸 ✓"}
	case "cause-long":
		return &protos.Triple{Code: 1001, Msg: "m", Cause: strings.Repeat("because of this and that; ", 120)}
	case "cause-punct":
		return &protos.Triple{Code: 1001, Msg: "m", Cause: `x&y=z%2 "q" +`}
	}
	panic("status class " + class)
}

func statusFPClass(class string) string {
	if strings.HasPrefix(class, "handler-1") {
		return "handler-1xx"
	}
	return class
}

func metaOf(class string, r *core.Rand) []pxy.KV {
	switch class {
	case "only-pid":
		return nil
	case "dup-keys":
		return []pxy.KV{{K: "Dk", V: "first"}, {K: "Other", V: "o"}, {K: "Dk", V: "second"}, {K: "Dk", V: "third"}}
	case "punct":
		return []pxy.KV{{K: "P-1", V: `a&b=c%d+e f"g\h;i`}, {K: "p.k_2", V: "x=y&z"}}
	case "utf8":
		return []pxy.KV{{K: "Uk", V: "größe 尺寸 ✓"}, {K: "Schlüssel", V: "wert"}}
	case "empty-value":
		return []pxy.KV{{K: "Ev", V: ""}, {K: "After", V: "a"}}
	case "many":
		var m []pxy.KV
		for i := 0; i < 50; i++ {
			m = append(m, pxy.KV{K: fmt.Sprintf("M%02d", i), V: string(alnumBytes(r, 1+r.Intn(20)))})
		}
		return m
	case "long-value":
		return []pxy.KV{{K: "Lv", V: string(alnumBytes(r, 4096))}}
	case "preset-realip":
		return []pxy.KV{{K: "K1", V: "v1"}, {K: erpc.MetaRealIP, V: "203.0.113.7:4711"}}
	case "dup-realip":
		return []pxy.KV{{K: erpc.MetaRealIP, V: "203.0.113.7:4711"}, {K: erpc.MetaRealIP, V: "198.51.100.9:1"}}
	case "case-variants":
		return []pxy.KV{{K: "casekey", V: "lower"}, {K: "CaseKey", V: "mixed"}, {K: "CASEKEY", V: "upper"}}
	}
	panic("meta class " + class)
}

func rmetaOf(class string, r *core.Rand) ([]pxy.KV, bool) {
	switch class {
	case "none":
		return nil, false
	case "dup-set":
		return []pxy.KV{{K: "Rd", V: "first"}, {K: "Rd", V: "second"}}, false
	case "dup-add":
		return []pxy.KV{{K: "Rd", V: "first"}, {K: "Ro", V: "o"}, {K: "Rd", V: "second"}}, true
	case "punct":
		return []pxy.KV{{K: "R-p", V: `a&b=c%d+e f"g\h;i`}}, false
	case "utf8":
		return []pxy.KV{{K: "Ru", V: "größe 尺寸 ✓"}}, false
	case "empty-value":
		return []pxy.KV{{K: "Re", V: ""}, {K: "Rafter", V: "a"}}, false
	case "many":
		var m []pxy.KV
		for i := 0; i < 50; i++ {
			m = append(m, pxy.KV{K: fmt.Sprintf("R%02d", i), V: string(alnumBytes(r, 1+r.Intn(20)))})
		}
		return m, false
	case "long-value":
		return []pxy.KV{{K: "Rl", V: string(alnumBytes(r, 4096))}}, false
	case "request-key":
		return []pxy.KV{{K: "K1", V: "reply-value"}, {K: pxy.PidKey, V: "reply-pid"}}, false
	case "realip-key":
		return []pxy.KV{{K: erpc.MetaRealIP, V: "192.0.2.1:9"}}, false
	}
	panic("rmeta class " + class)
}

func codecOf(class string) byte {
	switch class {
	case "json":
		return 'j'
	case "protobuf":
		return 'p'
	case "form":
		return 'f'
	case "xml":
		return 'x'
	case "plain":
		return 's'
	case "thrift":
		return 't'
	case "unregistered":
		return 201
	}
	panic("codec class " + class)
}

func kindCodec(kind string) byte {
	switch kind {
	case "json":
		return 'j'
	case "xml":
		return 'x'
	case "form":
		return 'f'
	case "plain":
		return 's'
	case "pb":
		return 'p'
	}
	return 0
}

// baseline returns the baseline request of an operation.
func baseline(op string, backend int, r *core.Rand) Spec {
	s := Spec{Op: op, Backend: backend, Kind: "bytes", Classes: map[string]string{}, ResultAs: "bytes"}
	s.Method = prefixOf(backend) + "/echo"
	s.Body = append([]byte("hello-"), alnumBytes(r, 10)...)
	s.Meta = []pxy.KV{{K: "K1", V: "v1"}}
	s.Tok = string(alnumBytes(r, 8))
	s.Pay = string(alnumBytes(r, 24))
	s.N = r.Intn(1000)
	if op == "call" {
		s.RMeta = []pxy.KV{{K: "R1", V: "rv1"}}
	}
	return s
}

// apply sets one dimension of the request to a class.
func apply(s *Spec, dim, class string, r *core.Rand, tame bool) {
	s.Classes[dim] = class
	pre := prefixOf(s.Backend)
	switch dim {
	case "method":
		switch class {
		case "nested":
			s.Method = pre + "/deep/er/and/deeper/echo"
		case "long":
			s.Method = pre + "/" + string(alnumBytes(r, 200))
		case "dots-dashes":
			s.Method = pre + "/svc.v1-beta_2/do.it"
		case "upper":
			s.Method = pre + "/Echo/UPPER"
		case "utf8":
			s.Method = pre + "/größe/尺寸"
		case "query":
			s.Method = pre + "/echo?x=1&y=2"
		case "registered":
			s.Kind = "rbytes"
		}
	case "body":
		switch class {
		case "empty":
			s.Body = []byte{}
		case "one":
			s.Body = []byte{'x'}
		case "255":
			s.Body = alnumBytes(r, 255)
		case "256":
			s.Body = alnumBytes(r, 256)
		case "4k":
			s.Body = alnumBytes(r, 4096)
		case "64k":
			s.Body = r.Bytes(65536)
		case "300k":
			s.Body = r.Bytes(300000)
		case "binary":
			b := make([]byte, 512)
			for i := range b {
				b[i] = byte(i)
			}
			s.Body = b
		case "zeros":
			s.Body = make([]byte, 1000)
		}
	case "codec":
		s.Codec = codecOf(class)
	case "typed":
		if s.Op == "push" {
			s.Kind = class
			break
		}
		if class == "json-accept-xml" {
			s.Kind = "json"
			s.Meta = append(s.Meta, pxy.KV{K: erpc.MetaAcceptBodyCodec, V: "120"})
			break
		}
		s.Kind = class
	case "result":
		// the caller decodes the reply into the typed value (baseline: raw reply bytes)
		if s.Kind == "bytes" || s.Kind == "rbytes" {
			s.Kind = "json"
		}
		s.ResultAs = "typed"
	case "meta":
		s.Meta = metaOf(class, r)
	case "pipe":
		if class == "gzip" {
			s.Pipe = "z"
		} else {
			s.Pipe = "gm"
		}
	case "status", "pstatus":
		if class == "handler-error" {
			s.Stat = &protos.Triple{Code: 1001, Msg: "push handler failed", Cause: "c"}
		} else {
			s.Stat = statusOf(class)
		}
	case "rmeta":
		s.RMeta, s.RAdd = rmetaOf(class, r)
	case "rcodec":
		s.RCodec = 'x'
		if class == "json-sets-xml" {
			s.Kind = "json"
		}
	case "reply":
		s.Reply = class
	case "accept":
		v := map[string]string{"bytes-accept-xml": "120", "accept-unregistered": "201", "accept-garbage": "abc",
			"push-accept-xml": "120", "push-accept-unregistered": "201"}[class]
		s.Meta = append(s.Meta, pxy.KV{K: erpc.MetaAcceptBodyCodec, V: v})
	case "wish":
		w, ok := wishTable[class]
		if !ok {
			panic("wish class " + class)
		}
		s.Kind, s.Wish, s.RCodec = w.kind, w.q, w.rc
		if w.kind == "bytes" || w.kind == "rbytes" {
			s.Codec = w.r
		}
		if w.as == "typed" {
			s.ResultAs = "typed"
		}
		if w.reply != "" {
			s.Reply = w.reply
		}
	case "sessid":
		s.SessID = class
		if i := strings.Index(class, "+preset-realip"); i > 0 {
			s.SessID = class[:i]
			s.Meta = append(s.Meta, pxy.KV{K: erpc.MetaRealIP, V: "203.0.113.7:4711"})
		}
	}
}

// finish derives the dependent fields.
func finish(s *Spec, topo string) {
	if s.Kind != "bytes" {
		// typed and registered handlers live at fixed routes
		s.Method = "" // resolved against the backend's route table at execution
	}
	s.BodyLen, s.NMeta, s.Topo = len(s.Body), len(s.Meta), topo
	if len(s.Classes) == 0 {
		s.Class = "baseline"
	} else if len(s.Classes) == 1 {
		for d, c := range s.Classes {
			s.Class = d + "=" + c
			if d == "status" {
				s.Class = d + "=" + statusFPClass(c)
			}
		}
	} else {
		s.Class = "mixed"
	}
}

func (s *Spec) sig() string {
	ks := make([]string, 0, len(s.Classes))
	for d, c := range s.Classes {
		ks = append(ks, d+"="+c)
	}
	sort.Strings(ks)
	return s.Topo + "/" + s.Op + "/" + strings.Join(ks, ",")
}

func dimsFor(op string) []dimTable {
	if op == "push" {
		return pushDims
	}
	return callDims
}

// Group is a list of requests run against one topology.
type Group struct {
	Proto, Fwd string
	Tame       bool
	Fail       []FailSpec
	// generation parameters of the pairs
	Singles bool
	Mixed   int
}

// FailSpec is one backend failure scenario.
type FailSpec struct {
	Op       string `json:"op"`
	Scenario string `json:"scenario"`
	Fwd      string `json:"forwarder"`
	Reset    bool   `json:"reset"`
	K        int    `json:"cut_reply_after_bytes"`
	Class    string `json:"class"`
}

func groups(tierName string) []Group {
	mixedRawSess, mixedRawMC, mixedTame, failRounds := 110, 50, 12, 1
	if tierName == "thorough" {
		mixedRawSess, mixedRawMC, mixedTame, failRounds = 17000, 8000, 1200, 30
	}
	var gs []Group
	split := func(g Group, total, per int) {
		first := true
		for total > 0 || first {
			n := per
			if n > total {
				n = total
			}
			x := g
			x.Singles = first
			x.Mixed = n
			gs = append(gs, x)
			total -= n
			first = false
		}
	}
	per := 60
	if tierName == "thorough" {
		per = 450
	}
	split(Group{Proto: "raw", Fwd: "session"}, mixedRawSess, per)
	split(Group{Proto: "raw", Fwd: "multiclient"}, mixedRawMC, per)
	for _, p := range []string{"json", "pb", "thrift-binary"} {
		split(Group{Proto: p, Fwd: "session", Tame: true}, mixedTame, per)
	}
	// failure scenarios: call scenarios first, push scenarios last (a push to a dead backend is known
	// to leave a process-wide trace, see C15)
	var calls, pushes []FailSpec
	for round := 0; round < failRounds; round++ {
		for _, fwd := range []string{"session", "multiclient"} {
			for _, sc := range []string{"closed-before/forwarder-close", "closed-before/backend-close", "closed-before/sever", "cut-mid-call", "cut-reply"} {
				for _, reset := range []bool{false, true} {
					if fwd == "multiclient" && (sc == "cut-reply" || sc == "closed-before/sever" || sc == "closed-before/forwarder-close" || reset) {
						continue // loopback TCP: no byte-exact cuts, no reset flavour
					}
					if (sc == "closed-before/forwarder-close" || sc == "closed-before/backend-close") && reset {
						continue
					}
					ks := []int{0}
					if sc == "cut-reply" {
						ks = []int{0, 1, 7, 40}
					}
					for _, k := range ks {
						calls = append(calls, FailSpec{Op: "call", Scenario: sc, Fwd: fwd, Reset: reset, K: k})
						if sc != "cut-reply" && k == 0 {
							pushes = append(pushes, FailSpec{Op: "push", Scenario: sc, Fwd: fwd, Reset: reset})
						}
					}
				}
			}
		}
	}
	chunk := func(l []FailSpec) {
		for len(l) > 0 {
			n := 8
			if n > len(l) {
				n = len(l)
			}
			gs = append(gs, Group{Fail: l[:n]})
			l = l[n:]
		}
	}
	chunk(calls)
	chunk(pushes)
	return gs
}

// specsOf generates the requests of a group (pure function of seed and group index).
func specsOf(g Group, gi int) []Spec {
	var out []Spec
	topo := g.Proto + "+" + g.Fwd
	r := core.NewRand(*seed, int64(gi), 19)
	wr := core.NewRand(*seed, int64(gi), 29) // decides which mixed calls carry a reply-codec cell
	n := 0
	next := func(op string) Spec {
		n++
		return baseline(op, n%2, r)
	}
	if g.Singles {
		for _, op := range []string{"call", "push"} {
			s := next(op)
			finish(&s, topo)
			out = append(out, s)
			for _, d := range dimsFor(op) {
				cl := d.classes
				if g.Tame {
					cl = d.tame
				}
				for _, c := range cl {
					s := next(op)
					apply(&s, d.name, c, r, g.Tame)
					finish(&s, topo)
					out = append(out, s)
				}
			}
		}
	}
	for i := 0; i < g.Mixed; i++ {
		op := "call"
		if r.Intn(3) == 0 {
			op = "push"
		}
		s := next(op)
		if wish := wr.Intn(4) == 0; wish && op == "call" {
			cl := wishAll
			if g.Tame {
				cl = wishTame
			}
			apply(&s, "wish", cl[wr.Intn(len(cl))], r, g.Tame)
		}
		for _, d := range dimsFor(op) {
			cl := d.classes
			if g.Tame {
				cl = d.tame
			}
			if d.name == "wish" {
				continue // drawn above
			}
			if len(cl) == 0 || r.Intn(3) != 0 {
				continue
			}
			if s.Classes["wish"] != "" {
				// the cell fixes the handler kind, the codecs and the way the reply is taken
				switch d.name {
				case "typed", "codec", "rcodec", "accept", "result", "reply":
					continue
				case "method":
					if s.Kind != "bytes" {
						continue
					}
				}
			}
			// dimensions that fix the handler kind exclude each other
			if d.name == "typed" && (s.Classes["method"] == "registered" || s.Codec != 0) {
				continue
			}
			if d.name == "rcodec" && s.Kind != "bytes" {
				continue
			}
			if d.name == "codec" && s.Kind != "bytes" {
				continue
			}
			if d.name == "result" && (s.Kind == "bytes" || s.Kind == "rbytes") {
				continue
			}
			c := cl[r.Intn(len(cl))]
			if d.name == "rcodec" && (s.Codec != 0 || s.Kind != "bytes") {
				c = "bytes-sets-xml"
			}
			apply(&s, d.name, c, r, g.Tame)
		}
		if s.Kind != "bytes" && s.Kind != "rbytes" {
			delete(s.Classes, "body")
			delete(s.Classes, "reply")
			s.Reply = ""
		}
		if s.Kind != "bytes" && s.Classes["method"] != "registered" {
			delete(s.Classes, "method")
		}
		finish(&s, topo)
		out = append(out, s)
	}
	return out
}

// Outcome is what the caller observed.
type Outcome struct {
	Triple protos.Triple
	Body   []byte
	RMeta  []pxy.KV
	RCodec byte
	Stuck  string
}

func settingsOf(s *Spec, pid string) []erpc.MessageSetting {
	st := []erpc.MessageSetting{erpc.WithAddMeta(pxy.PidKey, pid)}
	for _, kv := range s.Meta {
		st = append(st, erpc.WithAddMeta(kv.K, kv.V))
	}
	if c := kindCodec(s.Kind); c != 0 {
		st = append(st, erpc.WithBodyCodec(c))
	} else if s.Codec != 0 {
		st = append(st, erpc.WithBodyCodec(s.Codec))
	}
	if s.Pipe != "" {
		st = append(st, erpc.WithXferPipe([]byte(s.Pipe)...))
	}
	if s.Wish != 0 {
		st = append(st, erpc.WithAcceptBodyCodec(s.Wish))
	}
	return st
}

// reqCodec is the body codec the request is labelled with ('j' = the process default set by bed.Init).
func reqCodec(s *Spec) byte {
	if c := kindCodec(s.Kind); c != 0 {
		return c
	}
	if s.Codec != 0 {
		return s.Codec
	}
	return 'j'
}

func methodOf(t *pxy.Topo, s *Spec) string {
	if s.Kind == "bytes" {
		return s.Method
	}
	return t.B[s.Backend].Route(s.Op, s.Kind, prefixOf(s.Backend))
}

func argOf(s *Spec) interface{} {
	if s.Kind == "bytes" || s.Kind == "rbytes" {
		return append([]byte(nil), s.Body...)
	}
	return pxy.TypedArg(s.Kind, s.Tok, s.Pay, s.N)
}

func doCall(sess erpc.Session, t *pxy.Topo, s *Spec, pid string) Outcome {
	var res interface{} = new([]byte)
	if s.ResultAs == "typed" {
		res = pxy.TypedResult(s.Kind)
	}
	ch := make(chan erpc.CallCmd, 1)
	cmd := sess.AsyncCall(methodOf(t, s), argOf(s), res, ch, settingsOf(s, pid)...)
	if why := pxy.Await(cmd.Done(), watchdog); why != "" {
		return Outcome{Stuck: why}
	}
	o := Outcome{Triple: protos.StatusTriple(cmd.Status()), RMeta: pxy.MetaOf(cmd), RCodec: cmd.InputBodyCodec()}
	if cmd.Status().OK() {
		r, _ := cmd.Reply()
		o.Body = pxy.Canon(r)
	}
	return o
}

type viol struct {
	symptom, detail string
	witness         map[string]interface{}
}

func trunc(b []byte) string {
	if len(b) > 80 {
		return fmt.Sprintf("%q...(%d bytes)", b[:80], len(b))
	}
	return fmt.Sprintf("%q", b)
}

func kvs(m []pxy.KV) string {
	var p []string
	for _, kv := range m {
		v := kv.V
		if len(v) > 60 {
			v = v[:60] + fmt.Sprintf("...(%d)", len(kv.V))
		}
		p = append(p, kv.K+"="+v)
	}
	return "[" + strings.Join(p, " ; ") + "]"
}

func valuesOf(m []pxy.KV, key string) []string {
	var v []string
	for _, kv := range m {
		if kv.K == key {
			v = append(v, kv.V)
		}
	}
	return v
}

func keysOf(m []pxy.KV) []string {
	seen := map[string]bool{}
	var ks []string
	for _, kv := range m {
		if !seen[kv.K] {
			seen[kv.K] = true
			ks = append(ks, kv.K)
		}
	}
	return ks
}

func sameStrings(a, b []string) bool {
	if len(a) != len(b) {
		return false
	}
	for i := range a {
		if a[i] != b[i] {
			return false
		}
	}
	return true
}

// compareBackendView checks the backend's view of the proxied request against its view of the direct one.
func compareBackendView(callerAddr string, d, q pxy.Obs) []viol {
	var vs []viol
	if d.Method != q.Method {
		vs = append(vs, viol{"backend-method-differs", fmt.Sprintf("backend saw service method %q directly, %q through the proxy", d.Method, q.Method), nil})
	}
	if !bytes.Equal(d.Body, q.Body) {
		vs = append(vs, viol{"backend-body-differs", fmt.Sprintf("backend saw body %s directly, %s through the proxy", trunc(d.Body), trunc(q.Body)), nil})
	}
	// real-IP rule
	dr, qr := valuesOf(d.Meta, erpc.MetaRealIP), valuesOf(q.Meta, erpc.MetaRealIP)
	if len(dr) > 0 {
		if !sameStrings(dr, qr) {
			vs = append(vs, viol{"realip", fmt.Sprintf("caller preset %s=%q, backend saw %q through the proxy (preset real-IP must be preserved)", erpc.MetaRealIP, dr, qr), nil})
		} else {
			core.Add("realip_preserved", 1)
		}
	} else {
		if len(qr) != 1 || qr[0] != callerAddr {
			vs = append(vs, viol{"realip", fmt.Sprintf("caller sent no %s; backend saw %q through the proxy, want exactly the caller address %q", erpc.MetaRealIP, qr, callerAddr), nil})
		} else {
			core.Add("realip_added", 1)
		}
	}
	// every other key: same values in the same order
	keys := keysOf(append(append([]pxy.KV(nil), d.Meta...), q.Meta...))
	for _, k := range keys {
		if k == erpc.MetaRealIP {
			continue
		}
		if dv, qv := valuesOf(d.Meta, k), valuesOf(q.Meta, k); !sameStrings(dv, qv) {
			vs = append(vs, viol{"backend-meta-differs", fmt.Sprintf("request metadata key %q: backend saw %q directly, %q through the proxy", k, dv, qv), nil})
			break
		}
	}
	if d.Codec != q.Codec {
		core.Add("observed_backend_sees_other_body_codec", 1)
	}
	return vs
}

func compareOutcome(d, q Outcome) []viol {
	var vs []viol
	if d.Triple != q.Triple {
		vs = append(vs, viol{"status-differs", fmt.Sprintf("direct status %+v, proxied status %+v", d.Triple, q.Triple), nil})
	}
	if !bytes.Equal(d.Body, q.Body) {
		vs = append(vs, viol{"body-differs", fmt.Sprintf("direct result %s, proxied result %s", trunc(d.Body), trunc(q.Body)), nil})
	}
	if d.RCodec != q.RCodec {
		vs = append(vs, viol{"codec-differs", fmt.Sprintf("reply body codec %d (%q) directly, %d (%q) through the proxy", d.RCodec, string(d.RCodec), q.RCodec, string(q.RCodec)), nil})
	}
	// reply metadata, one value per key: every key of the direct reply must be present with one of the direct values
	for _, k := range keysOf(d.RMeta) {
		dv, qv := valuesOf(d.RMeta, k), valuesOf(q.RMeta, k)
		if len(qv) == 0 {
			vs = append(vs, viol{"meta-differs", fmt.Sprintf("reply metadata key %q=%q of the direct reply is missing in the proxied reply %s", k, dv, kvs(q.RMeta)), nil})
			break
		}
		ok := false
		for _, x := range dv {
			if x == qv[0] {
				ok = true
			}
		}
		if !ok {
			vs = append(vs, viol{"meta-differs", fmt.Sprintf("reply metadata key %q: direct %q, proxied %q", k, dv, qv), nil})
			break
		}
	}
	for _, k := range keysOf(q.RMeta) {
		if len(valuesOf(d.RMeta, k)) == 0 {
			vs = append(vs, viol{"meta-extra-key", fmt.Sprintf("proxied reply carries metadata key %q=%q that the direct reply does not have (direct %s)", k, valuesOf(q.RMeta, k), kvs(d.RMeta)), nil})
			break
		}
	}
	return vs
}

type pairResult struct {
	viols        []viol
	inconclusive string
	nontrivial   bool
	plan         *pxy.Plan
	finalCount   int
}

var pidCtr int64

// runPair sends the request directly and through the proxy and compares.
func runPair(t *pxy.Topo, s *Spec) pairResult {
	pid := fmt.Sprintf("p%d", atomic.AddInt64(&pidCtr, 1))
	pl := pxy.NewPlan(pid)
	pl.Stat, pl.RMeta, pl.RAdd, pl.RCodec, pl.Reply = s.Stat, s.RMeta, s.RAdd, s.RCodec, s.Reply
	res := pairResult{plan: pl}
	b, other := s.Backend, 1-s.Backend
	via := t.CP // the caller -> proxy connection used for the proxied request
	if s.SessID != "" {
		// the proxy's downstream session carries an id of its own (unique per pair; ids are an index key)
		defaultID := t.CP.B.ID()
		id := "user-" + pid
		switch s.SessID {
		case "id-address-like":
			id = fmt.Sprintf("198.51.100.1:%d", 1000+atomic.LoadInt64(&pidCtr)%60000)
		case "id-punct":
			id = "ключ user/7 &x=1 " + pid
		}
		switch s.SessID {
		case "postaccept":
			l, err := t.NewCallerLink(id)
			if err != nil {
				res.inconclusive = "extra caller connection: " + err.Error()
				return res
			}
			defer l.CA.Sever(false)
			via = l
		case "setid-handler":
			var got string
			if tr, stuck := loginCall(t, id, &got); stuck != "" || tr.Code != 0 {
				res.inconclusive = fmt.Sprintf("login call on the proxy peer: %+v %s", tr, stuck)
				return res
			}
			defer t.CP.B.SetID(defaultID)
		case "setid-changed":
			t.CP.B.SetID(id + "-first")
			w := Spec{Op: "call", Backend: b, Kind: "bytes", Method: prefixOf(b) + "/warmup", Body: []byte("w"), ResultAs: "bytes"}
			if o := doCall(t.CP.A, t, &w, "no-plan"); o.Stuck != "" {
				res.inconclusive = "warm-up call: " + o.Stuck
				return res
			}
			t.CP.B.SetID(id)
			defer t.CP.B.SetID(defaultID)
		default: // set from another goroutine (this one) some time after the connection was accepted
			t.CP.B.SetID(id)
			defer t.CP.B.SetID(defaultID)
		}
		if via.B.ID() != id {
			res.inconclusive = fmt.Sprintf("the downstream session has id %q, not %q", via.B.ID(), id)
			return res
		}
		core.Add("pairs_with_named_downstream_session", 1)
	}
	callerAddr := via.CA.LocalAddr().String()
	direct, proxied := t.CB[b].A, via.A
	var d, q Outcome
	nd := 0
	upBefore := upstreamCounts(t, b)
	if s.Op == "call" {
		d = doCall(direct, t, s, pid)
		if d.Stuck != "" {
			res.inconclusive = "direct call did not complete: " + d.Stuck
			return res
		}
		nd = pl.Count(b)
		t.TakeLabels()
		q = doCall(proxied, t, s, pid)
		if q.Stuck != "" {
			res.inconclusive = "proxied call did not complete: " + q.Stuck
			return res
		}
	} else {
		st := direct.Push(methodOf(t, s), argOf(s), settingsOf(s, pid)...)
		if !st.OK() {
			res.inconclusive = "direct push failed locally: " + st.String()
			return res
		}
		pxy.WaitCount(func() bool { return pl.Count(b) >= 1 }, watchdog)
		nd = pl.Count(b)
		t.TakeLabels()
		st = proxied.Push(methodOf(t, s), argOf(s), settingsOf(s, pid)...)
		if !st.OK() {
			res.inconclusive = "push to the proxy failed locally: " + st.String()
			return res
		}
		pxy.WaitCount(func() bool { return pl.Count(b) >= nd+1 }, watchdog)
	}
	obs := pl.Observations()
	nq := pl.Count(b) - nd
	labels := t.TakeLabels()
	upAfter := upstreamCounts(t, b)
	res.finalCount = len(obs)
	core.Add("backend_invocations_observed", int64(len(obs)))
	if nd > 1 {
		res.inconclusive = fmt.Sprintf("the direct request reached the backend handler %d times", nd)
		return res
	}
	if pl.Count(other) != 0 {
		res.viols = append(res.viols, viol{"other-backend-invoked", fmt.Sprintf("backend %d was chosen by the forwarder function but backend %d handled the request %d time(s)", b, other, pl.Count(other)), nil})
	}
	if nq != nd {
		extra := ""
		if s.Op == "call" {
			extra = fmt.Sprintf(" (direct status %+v, proxied status %+v)", d.Triple, q.Triple)
		}
		res.viols = append(res.viols, viol{"backend-invocations", fmt.Sprintf("sent directly the request reached the backend handler %d time(s), through the proxy %d time(s)%s", nd, nq, extra), nil})
	}
	if s.Op == "call" {
		res.viols = append(res.viols, compareOutcome(d, q)...)
		if d.Triple.Code == 0 {
			core.Add("direct_calls_ok", 1)
		} else {
			core.Add("direct_calls_failed_status", 1)
		}
		if s.Classes["wish"] != "" {
			// what the reply-codec cells met: the codec the direct reply came back in, relative to request and wish
			switch {
			case d.Triple.Code != 0:
				core.Add("wish_cells_direct_status_not_ok", 1)
			case s.Wish != 0 && d.RCodec == s.Wish && d.RCodec != reqCodec(s):
				core.Add("wish_cells_direct_reply_in_wished_codec", 1)
			case s.Wish != 0 && d.RCodec == reqCodec(s) && d.RCodec != s.Wish:
				core.Add("wish_cells_direct_reply_in_request_codec_despite_wish", 1)
			case s.Wish != 0 && d.RCodec != s.Wish:
				core.Add("wish_cells_direct_reply_in_third_codec_despite_wish", 1)
			default:
				core.Add("wish_cells_other", 1)
			}
			if os.Getenv("C19_DEBUG") != "" {
				fmt.Fprintf(os.Stderr, "wish %s %s: direct %+v codec %d body %s | proxied %+v codec %d body %s\n", s.Topo, s.Classes["wish"], d.Triple, d.RCodec, trunc(d.Body), q.Triple, q.RCodec, trunc(q.Body))
			}
		}
	}
	if nq >= 1 {
		// what the forwarder function was told: the downstream session's id, the real IP, the service method
		wantIP := callerAddr
		if v := valuesOf(s.Meta, erpc.MetaRealIP); len(v) > 0 {
			wantIP = v[0]
		}
		core.Add("labels_checked", int64(len(labels)))
		if len(labels) != 1 {
			res.viols = append(res.viols, viol{"label-count", fmt.Sprintf("the forwarder function was asked %d time(s) for one proxied request", len(labels)), nil})
		} else {
			l := labels[0]
			if l.RealIP != wantIP {
				res.viols = append(res.viols, viol{"label-realip", fmt.Sprintf("Label.RealIP = %q, want %q (downstream session id %q, caller address %q)", l.RealIP, wantIP, via.B.ID(), callerAddr), nil})
			}
			if l.SessionID != via.B.ID() {
				res.viols = append(res.viols, viol{"label-sessionid", fmt.Sprintf("Label.SessionID = %q, the downstream session's id is %q", l.SessionID, via.B.ID()), nil})
			}
			if l.ServiceMethod != methodOf(t, s) {
				res.viols = append(res.viols, viol{"label-method", fmt.Sprintf("Label.ServiceMethod = %q, the request's service method is %q", l.ServiceMethod, methodOf(t, s)), nil})
			}
		}
		if n := len(upBefore); n > 1 {
			// several upstream sessions keyed by the label's real IP: only the one for this caller may be used
			want := pxy.UpstreamIndex(wantIP, n)
			for k := range upBefore {
				moved := upAfter[k] - upBefore[k]
				if (k == want && moved != 1) || (k != want && moved != 0) {
					res.viols = append(res.viols, viol{"upstream-choice", fmt.Sprintf("upstream session %d of %d is the one keyed by real IP %q, but the per-upstream request counters moved by %v", want, n, wantIP, diffCounts(upBefore, upAfter)), nil})
					break
				}
			}
			core.Add("upstream_choices_checked", 1)
		}
	}
	if nd == 1 && nq >= 1 {
		var od, oq pxy.Obs
		seen := 0
		for _, o := range obs {
			if o.Backend != b {
				continue
			}
			if seen == 0 {
				od = o
			} else if seen == 1 {
				oq = o
			}
			seen++
		}
		res.viols = append(res.viols, compareBackendView(callerAddr, od, oq)...)
		res.nontrivial = true
	}
	if len(res.viols) > 0 {
		// report the primary symptom: a request that did not reach the handler the same number of times, or came
		// back with another status, differs in body / codec / reply metadata as a consequence
		var all []string
		has := map[string]bool{}
		for _, v := range res.viols {
			all = append(all, v.symptom)
			has[v.symptom] = true
		}
		consequential := map[string]bool{}
		if has["backend-invocations"] {
			for _, x := range []string{"status-differs", "body-differs", "codec-differs", "meta-differs", "meta-extra-key"} {
				consequential[x] = true
			}
		}
		if has["realip"] {
			consequential["label-realip"], consequential["upstream-choice"] = true, true
		}
		if !has["backend-invocations"] && has["status-differs"] {
			for _, x := range []string{"body-differs", "codec-differs", "meta-differs", "meta-extra-key"} {
				consequential[x] = true
			}
		}
		var primary []viol
		for _, v := range res.viols {
			if !consequential[v.symptom] {
				primary = append(primary, v)
			}
		}
		res.viols = primary
		w := map[string]interface{}{"all_symptoms": all, "request": s, "request_meta": kvs(s.Meta), "request_body": trunc(s.Body), "handler_reply_meta": kvs(s.RMeta),
			"backend_invocations_direct": nd, "backend_invocations_proxied": nq, "caller_address": callerAddr,
			"downstream_session_id": via.B.ID(), "forwarder_labels": labels}
		if s.Op == "call" {
			w["direct"] = map[string]interface{}{"status": d.Triple, "result": trunc(d.Body), "reply_meta": kvs(d.RMeta), "reply_codec": d.RCodec}
			w["proxied"] = map[string]interface{}{"status": q.Triple, "result": trunc(q.Body), "reply_meta": kvs(q.RMeta), "reply_codec": q.RCodec}
		}
		var views []map[string]interface{}
		for _, o := range obs {
			views = append(views, map[string]interface{}{"backend": o.Backend, "method": o.Method, "meta": kvs(o.Meta), "body": trunc(o.Body), "codec": o.Codec, "real_ip": o.RealIP})
		}
		w["backend_views"] = views
		for i := range res.viols {
			res.viols[i].witness = w
		}
	}
	return res
}

// upstreamCounts returns the requests handled so far by each upstream session of a backend.
func upstreamCounts(t *pxy.Topo, b int) []int64 {
	var out []int64
	for _, f := range t.Fwx[b] {
		out = append(out, atomic.LoadInt64(&f.Calls)+atomic.LoadInt64(&f.Pushes))
	}
	return out
}

func diffCounts(a, b []int64) []int64 {
	out := make([]int64, len(a))
	for i := range a {
		out[i] = b[i] - a[i]
	}
	return out
}

// loginCall calls the proxy peer's own login handler, which renames the caller's session.
func loginCall(t *pxy.Topo, id string, got *string) (protos.Triple, string) {
	cmd := t.CP.A.AsyncCall(t.LoginRoute, &id, got, make(chan erpc.CallCmd, 1))
	if why := pxy.Await(cmd.Done(), watchdog); why != "" {
		return protos.Triple{}, why
	}
	return protos.StatusTriple(cmd.Status()), ""
}

var emitted = map[string]int{}

func emit(id string, desc interface{}, fp, what string, witness interface{}, sig string) {
	emitted[fp]++
	core.Add("violating_observations", 1)
	if emitted[fp] > 2 {
		core.Add("violations_not_reemitted", 1)
		return
	}
	rid := fmt.Sprintf("%s#%d", id, len(emitted)*10+emitted[fp])
	core.Begin(rid, desc)
	core.Result(core.R{ID: rid, Verdict: core.Violated, FP: fp, What: what, Witness: witness, Desc: desc, Sig: sig})
}

// culprit re-runs single-dimension variants of a mixed request to find the dimension responsible for a symptom.
func culprit(t *pxy.Topo, g Group, s *Spec, symptom string, r *core.Rand) string {
	var ds []string
	for d := range s.Classes {
		ds = append(ds, d)
	}
	sort.Strings(ds)
	for _, d := range ds {
		x := baseline(s.Op, s.Backend, r)
		apply(&x, d, s.Classes[d], r, g.Tame)
		finish(&x, s.Topo)
		pr := runPair(t, &x)
		pr.plan.Drop()
		core.Add("minimisation_reruns", 1)
		for _, v := range pr.viols {
			if v.symptom == symptom {
				return x.Class
			}
		}
	}
	return "mixed"
}

func runPairsGroup(gi int, g Group, only string) {
	specs := specsOf(g, gi)
	pxy.MinQuiet = 0
	if g.Fwd == "multiclient" {
		pxy.MinQuiet = 40 * time.Millisecond
	}
	t, err := pxy.Build(pxy.Options{Proto: g.Proto, FwdKind: g.Fwd, Upstreams: 3})
	if err != nil {
		id := fmt.Sprintf("g%03d", gi)
		core.Begin(id, map[string]interface{}{"class": "topology", "proto": g.Proto, "forwarder": g.Fwd})
		core.Result(core.R{ID: id, Verdict: core.Inconclusive, What: "topology: " + err.Error()})
		return
	}
	defer func() { t.Close() }()
	type kept struct {
		id string
		s  *Spec
		pr pairResult
	}
	var keep []kept
	mr := core.NewRand(*seed, int64(gi), 23)
	for pi := range specs {
		s := &specs[pi]
		id := fmt.Sprintf("g%03d.p%04d", gi, pi)
		if only != "" && !strings.HasPrefix(only, id) {
			continue
		}
		core.Begin(id, s)
		pr := runPair(t, s)
		core.Add("evaluations", 1)
		core.Add("pairs_"+s.Op, 1)
		if pr.inconclusive != "" {
			core.Add("pairs_inconclusive", 1)
			core.Result(core.R{ID: id, Verdict: core.Inconclusive, What: pr.inconclusive, Desc: s, Sig: s.sig()})
			pr.plan.Drop()
			// the topology may be wedged: rebuild it
			t.Close()
			if t, err = pxy.Build(pxy.Options{Proto: g.Proto, FwdKind: g.Fwd, Upstreams: 3}); err != nil {
				core.Fatalf("rebuilding the topology: %v", err)
			}
			continue
		}
		if pr.nontrivial {
			core.Distinct("nontrivial", s.sig())
			core.Distinct("single_classes", s.Topo+"/"+s.Op+"/"+s.Class)
		}
		if pi < 2 {
			core.Sample(map[string]interface{}{"request": s, "nontrivial": pr.nontrivial, "violations": len(pr.viols)})
		}
		seenSym := map[string]bool{}
		for _, v := range pr.viols {
			if seenSym[v.symptom] {
				continue
			}
			seenSym[v.symptom] = true
			class := s.Class
			if class == "mixed" {
				class = culprit(t, g, s, v.symptom, mr)
			}
			fp := fmt.Sprintf("%s/%s/%s/%s", *prop, s.Op, class, v.symptom)
			emit(id, s, fp, fmt.Sprintf("%s %s [%s, %s]: %s", s.Op, class, s.Topo, s.Kind, v.detail), v.witness, s.sig())
		}
		keep = append(keep, kept{id, s, pr})
	}
	// late duplicates: after everything settled no plan may have been handled again
	pxy.Settle(10*time.Second, 3, nil)
	for _, k := range keep {
		if n := k.pr.plan.Count(-1); n != k.pr.finalCount {
			fp := fmt.Sprintf("%s/%s/%s/%s", *prop, k.s.Op, k.s.Class, "backend-invocations-late")
			emit(k.id, k.s, fp, fmt.Sprintf("%s %s: the backend handler ran %d more time(s) for this request after both requests had completed", k.s.Op, k.s.Class, n-k.pr.finalCount), map[string]interface{}{"request": k.s}, k.s.sig())
		}
		k.pr.plan.Drop()
	}
}

// ---- failure scenarios ----

type probe struct {
	out   Outcome
	moved [2]int64
}

// proxiedBytesCall sends a baseline bytes call through the proxy to the given backend.
func proxiedBytesCall(t *pxy.Topo, backend int, pl *pxy.Plan, body string) (Outcome, [2]int64) {
	before := [2]int64{atomic.LoadInt64(&t.B[0].Calls), atomic.LoadInt64(&t.B[1].Calls)}
	s := Spec{Op: "call", Backend: backend, Kind: "bytes", Method: prefixOf(backend) + "/echo", Body: []byte(body), ResultAs: "bytes"}
	o := doCall(t.CP.A, t, &s, pl.ID)
	return o, [2]int64{atomic.LoadInt64(&t.B[0].Calls) - before[0], atomic.LoadInt64(&t.B[1].Calls) - before[1]}
}

func forwarderNoticed(t *pxy.Topo) bool {
	if t.FwdKind == "session" {
		return !t.FB[0].A.Health()
	}
	all := true
	t.F.RangeSession(func(s erpc.Session) bool {
		if s.RemoteAddr().String() == t.Srv[0].Addr() && s.Health() {
			all = false
		}
		return true
	})
	return all
}

func runFailure(id string, fs FailSpec) {
	fs.Class = fs.Scenario + "@" + fs.Fwd
	if i := strings.Index(fs.Scenario, "/"); i > 0 {
		fs.Class = "backend-" + fs.Scenario[:i] + "@" + fs.Fwd
	} else {
		fs.Class = "backend-" + fs.Scenario + "@" + fs.Fwd
	}
	core.Begin(id, fs)
	core.Add("evaluations", 1)
	core.Add("failure_scenarios", 1)
	sig := fmt.Sprintf("failure/%s/%s/%s/reset=%v/k=%d", fs.Op, fs.Scenario, fs.Fwd, fs.Reset, fs.K)
	inconclusive := func(why string) {
		core.Add("failure_scenarios_inconclusive", 1)
		core.Result(core.R{ID: id, Verdict: core.Inconclusive, What: why, Desc: fs, Sig: sig})
	}
	pxy.MinQuiet = 0
	if fs.Fwd == "multiclient" {
		pxy.MinQuiet = 40 * time.Millisecond
	}
	t, err := pxy.Build(pxy.Options{Proto: "raw", FwdKind: fs.Fwd})
	if err != nil {
		inconclusive("topology: " + err.Error())
		return
	}
	defer t.Close()
	ok := pxy.NewPlan(id + ".ok")
	defer ok.Drop()
	// sanity: both backends reachable through the proxy
	for b := 0; b < 2; b++ {
		o, mv := proxiedBytesCall(t, b, ok, "pre")
		if o.Stuck != "" || o.Triple.Code != 0 || mv[b] != 1 {
			inconclusive(fmt.Sprintf("healthy proxied call to backend %d before the fault: %+v %s moved=%v", b, o.Triple, o.Stuck, mv))
			return
		}
	}
	var viols []viol
	witness := map[string]interface{}{"scenario": fs}
	checkHealthy := func(tag string) {
		o, mv := proxiedBytesCall(t, 1, ok, "healthy-"+tag)
		witness["healthy_"+tag] = map[string]interface{}{"status": o.Triple, "result": trunc(o.Body), "stuck": o.Stuck, "backend_counters_moved": mv}
		if o.Stuck != "" {
			viols = append(viols, viol{"healthy-backend-affected", fmt.Sprintf("proxied call to the healthy backend (%s the fault on the other backend) did not complete: %s", tag, o.Stuck), nil})
			return
		}
		if o.Triple.Code != 0 || !bytes.Equal(o.Body, pxy.ReplyBytes("", []byte("healthy-"+tag))) {
			viols = append(viols, viol{"healthy-backend-affected", fmt.Sprintf("proxied call to the healthy backend (%s the fault on the other backend): status %+v result %s", tag, o.Triple, trunc(o.Body)), nil})
		}
		if mv[1] != 1 || mv[0] != 0 {
			viols = append(viols, viol{"backend-invocations", fmt.Sprintf("proxied call to the healthy backend moved the backend counters by %v, want [0 1]", mv), nil})
		}
	}
	x := pxy.NewPlan(id + ".x")
	defer x.Drop()
	xs := Spec{Op: fs.Op, Backend: 0, Kind: "bytes", Method: "/a/echo", Body: []byte("to-the-failing-backend"), ResultAs: "bytes"}
	b0 := atomic.LoadInt64(&t.B[0].Calls)
	wantB0 := int64(0)
	var xo Outcome
	inject := func() {
		switch {
		case t.FwdKind == "multiclient" && strings.HasPrefix(fs.Scenario, "closed-before"):
			t.Srv[0].Down()
		case t.FwdKind == "multiclient":
			t.Srv[0].CutConns()
		case fs.Scenario == "closed-before/forwarder-close":
			t.FB[0].A.Close()
		case fs.Scenario == "closed-before/backend-close":
			t.FB[0].B.Close()
		default:
			t.FB[0].CA.Sever(fs.Reset)
		}
	}
	switch {
	case strings.HasPrefix(fs.Scenario, "closed-before"):
		inject()
		if !bed.WaitUntil(10*time.Second, func() bool { return forwarderNoticed(t) }) {
			inconclusive("the forwarder's session did not notice the closed backend connection")
			return
		}
		if fs.Op == "call" {
			xo = doCall(t.CP.A, t, &xs, x.ID)
		} else {
			st := t.CP.A.Push(xs.Method, argOf(&xs), settingsOf(&xs, x.ID)...)
			xo.Triple = protos.StatusTriple(st)
			pushes := atomic.LoadInt64(&t.Fw[0].Pushes)
			pxy.WaitCount(func() bool {
				return atomic.LoadInt64(&t.Fw[0].PushDone) > 0 && atomic.LoadInt64(&t.Fw[0].PushDone) >= pushes
			}, watchdog)
			witness["forwarder_push_returned_code"] = atomic.LoadInt32(&t.Fw[0].LastPushCode)
		}
		checkHealthy("after")
	case fs.Scenario == "cut-mid-call" || fs.Scenario == "cut-reply":
		x.Park = make(chan struct{})
		wantB0 = 1
		done := make(chan struct{})
		go func() {
			defer close(done)
			if fs.Op == "call" {
				xo = doCall(t.CP.A, t, &xs, x.ID)
			} else {
				xo.Triple = protos.StatusTriple(t.CP.A.Push(xs.Method, argOf(&xs), settingsOf(&xs, x.ID)...))
			}
		}()
		if !pxy.WaitCount(func() bool { return x.Count(0) >= 1 }, watchdog) {
			close(x.Park)
			inconclusive("the forwarded request never reached the backend handler")
			return
		}
		checkHealthy("during")
		if fs.Scenario == "cut-reply" {
			t.FB[0].CB.CutWritesAfter(t.FB[0].CB.Written()+int64(fs.K), fs.Reset, nil)
			close(x.Park)
		} else {
			inject()
		}
		why := pxy.Await(done, watchdog)
		if fs.Scenario != "cut-reply" {
			close(x.Park)
		}
		if why != "" {
			inconclusive("the proxied request did not complete after the cut: " + why)
			return
		}
		checkHealthy("after")
	}
	pxy.Settle(5*time.Second, 3, nil)
	witness["proxied_request_status"] = xo.Triple
	witness["proxied_request_stuck"] = xo.Stuck
	if xo.Stuck != "" {
		inconclusive("the proxied request to the failing backend did not complete: " + xo.Stuck)
		return
	}
	if fs.Op == "call" && xo.Triple.Code != erpc.CodeBadGateway {
		viols = append(viols, viol{"backend-down-not-502", fmt.Sprintf("backend connection failure (%s, forwarder %s, reset=%v, k=%d): the proxied call returned %+v, want code 502", fs.Scenario, fs.Fwd, fs.Reset, fs.K, xo.Triple), nil})
	}
	if got := atomic.LoadInt64(&t.B[0].Calls) - b0; got != wantB0 {
		viols = append(viols, viol{"backend-invocations", fmt.Sprintf("failing backend handled %d request(s) during the scenario, want %d", got, wantB0), nil})
	}
	core.Distinct("nontrivial", sig)
	if len(viols) == 0 {
		core.Result(core.R{ID: id, Verdict: core.Held, Sig: sig, Nontrivial: true})
		return
	}
	core.Result(core.R{ID: id, Verdict: core.Held, What: "violations reported separately", Sig: sig, Nontrivial: true})
	seen := map[string]bool{}
	for _, v := range viols {
		if seen[v.symptom] {
			continue
		}
		seen[v.symptom] = true
		fp := fmt.Sprintf("%s/%s/%s/%s", *prop, fs.Op, fs.Class, v.symptom)
		emit(id, fs, fp, v.detail, witness, sig)
	}
}

type discard struct{}

func (discard) Output(calldepth int, msgBytes []byte, loggerLevel erpc.LoggerLevel) {}
func (discard) Flush() error                                                        { return nil }

func main() {
	flag.Parse()
	core.Prop = *prop
	wire.RegFilters()
	bed.Init("OFF")
	erpc.SetLoggerOutputter(discard{})
	only := ""
	if *replay != "" {
		raw, err := ioutil.ReadFile(*replay)
		if err != nil {
			core.Fatalf("replay file: %v", err)
		}
		var rp struct {
			Batch int    `json:"batch"`
			Case  string `json:"case"`
		}
		if err := json.Unmarshal(raw, &rp); err != nil {
			core.Fatalf("replay file: %v", err)
		}
		*batch, only = rp.Batch, rp.Case
		if i := strings.Index(only, "#"); i > 0 {
			only = only[:i]
		}
	}
	gs := groups(*tier)
	for gi, g := range gs {
		if gi%*nbatch != *batch {
			continue
		}
		if only != "" && !strings.HasPrefix(only, fmt.Sprintf("g%03d", gi)) {
			continue
		}
		if len(g.Fail) > 0 {
			for fi, fs := range g.Fail {
				id := fmt.Sprintf("g%03d.f%02d", gi, fi)
				if only != "" && only != id {
					continue
				}
				runFailure(id, fs)
			}
			continue
		}
		runPairsGroup(gi, g, only)
	}
	core.Finish()
	os.Exit(0)
}
