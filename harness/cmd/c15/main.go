// Worker for C15: the framework's predefined statuses are immutable. Monitors: (1) a snapshot of
// every package-level sentinel (erpc.VerifSentinels) compared after every history step, (2) fixed
// failure probes whose observed (code, msg, cause) must not depend on the history. Histories mix
// ordinary traffic, failures, connection cuts, panics, plug-in vetoes and every shipped plug-in
// that handles statuses.
package main

import (
	"context"
	"encoding/json"
	"flag"
	"fmt"
	"io/ioutil"
	"os"
	"runtime"
	"sort"
	"strings"
	"sync/atomic"
	"time"

	erpc "github.com/henrylee2cn/erpc/v6"
	"github.com/henrylee2cn/erpc/v6/plugin/auth"
	"github.com/henrylee2cn/erpc/v6/plugin/binder"
	"github.com/henrylee2cn/erpc/v6/plugin/heartbeat"
	"github.com/henrylee2cn/erpc/v6/plugin/ignorecase"
	"github.com/henrylee2cn/erpc/v6/plugin/overloader"
	"github.com/henrylee2cn/erpc/v6/plugin/secure"
	"github.com/henrylee2cn/erpc/v6/socket"

	"verifharness/bed"
	"verifharness/core"
	"verifharness/protos"
	"verifharness/pxy"
	"verifharness/wire"
)

var (
	prop   = flag.String("prop", "C15", "")
	tier   = flag.String("tier", "quick", "")
	seed   = flag.Int64("seed", 1, "")
	batch  = flag.Int("batch", 0, "")
	nbatch = flag.Int("nbatch", 1, "")
	replay = flag.String("replay", "", "")
)

const watchdog = 60 * time.Second

var raw = socket.RawProtoFunc

// ---------- helper plug-ins (harness code using the documented hook API) ----------

// vetoPlugin vetoes by request: service method "/vetoed" on the reading side, metadata "Veto" on the writing side.
type vetoPlugin struct{ rejectAccept *int32 }

func (v *vetoPlugin) Name() string { return "harness-veto" }
func (v *vetoPlugin) PostReadCallHeader(ctx erpc.ReadCtx) *erpc.Status {
	if strings.HasSuffix(ctx.ServiceMethod(), "/vetoed") {
		return erpc.NewStatus(4031, "vetoed by plug-in", "read side")
	}
	return nil
}
func (v *vetoPlugin) PostReadPushHeader(ctx erpc.ReadCtx) *erpc.Status {
	return v.PostReadCallHeader(ctx)
}
func (v *vetoPlugin) PreWriteCall(ctx erpc.WriteCtx) *erpc.Status {
	if len(ctx.Output().Meta().Peek("Veto")) > 0 {
		return erpc.NewStatus(4032, "vetoed by plug-in", "write side")
	}
	return nil
}
func (v *vetoPlugin) PreWritePush(ctx erpc.WriteCtx) *erpc.Status {
	if len(ctx.Output().Meta().Peek("Veto")) > 0 {
		return erpc.NewStatus(4032, "vetoed by plug-in", "write side")
	}
	if len(ctx.Output().Meta().Peek("Mtype9")) > 0 {
		ctx.Output().SetMtype(9) // a message type no peer supports
	}
	return nil
}
func (v *vetoPlugin) PostAccept(sess erpc.PreSession) *erpc.Status {
	if v.rejectAccept != nil && atomic.LoadInt32(v.rejectAccept) != 0 {
		return erpc.NewStatus(4033, "vetoed by plug-in", "accept")
	}
	return nil
}

// hbCounter counts heartbeat messages arriving at a pong peer.
type hbCounter struct{ n int64 }

func (h *hbCounter) Name() string { return "harness-hb-counter" }
func (h *hbCounter) PostReadCallHeader(ctx erpc.ReadCtx) *erpc.Status {
	if ctx.ServiceMethod() == heartbeat.HeartbeatServiceMethod {
		atomic.AddInt64(&h.n, 1)
	}
	return nil
}
func (h *hbCounter) PostReadPushHeader(ctx erpc.ReadCtx) *erpc.Status {
	return h.PostReadCallHeader(ctx)
}

// BArg is the argument of the binder-checked handler.
type BArg struct {
	A int    `param:"<range:1:10>"`
	B string `param:"<meta:bkey><nonzero><stat:100002:bkey must be given>"`
}

func Bound(ctx erpc.CallCtx, arg *BArg) (int, *erpc.Status) { return arg.A, nil }

// ---------- world ----------

type world struct {
	r *core.Rand

	caller erpc.Peer // plain caller peer (with the veto plug-in for write-side vetoes and the mtype trick)
	be     *pxy.Backend
	plain  erpc.Peer // registered routes only, no unknown handlers
	veto   *int32
	lb     *bed.Link // caller -> backend
	lp     *bed.Link // caller -> plain

	topo   *pxy.Topo // proxy topology, session forwarder
	topoMC *pxy.Topo // proxy topology, multiclient forwarder

	authSrv, authSrv2            *pxy.TCPServer
	authGood, authBad, authTwice erpc.Peer

	secSrv, secGood, secBad erpc.Peer
	lsg, lsb                *bed.Link

	icSrv erpc.Peer
	lic   *bed.Link

	bindSrv erpc.Peer
	lbind   *bed.Link

	hbPing   [2]erpc.Peer
	hbPong   [2]erpc.Peer
	hbCount  [2]*hbCounter
	hbWaited bool
	hbManual erpc.Peer
	lhb      *bed.Link
	deadAddr string
	planN    int64
}

func newWorld(r *core.Rand) *world {
	w := &world{r: r}
	w.veto = new(int32)
	w.caller = erpc.NewPeer(erpc.PeerConfig{}, &vetoPlugin{})
	w.be = pxy.NewBackend(0, erpc.PeerConfig{}, &vetoPlugin{rejectAccept: w.veto})
	w.plain = erpc.NewPeer(erpc.PeerConfig{})
	w.plain.SubRoute("/a").RouteCallFunc(pxy.Tbytes)
	w.plain.SubRoute("/a").RouteCallFunc(pxy.Tjson)
	// a port nobody listens on (privileged ports are never handed out as ephemeral ports, so no
	// listener of this process can end up there)
	w.deadAddr = "127.0.0.1:1"
	return w
}

func (w *world) plan() *pxy.Plan {
	w.planN++
	return pxy.NewPlan(fmt.Sprintf("c15-%d", w.planN))
}

func healthy(l *bed.Link) bool { return l != nil && l.A.Health() && !l.CA.PeerGone() }

func drop(l *bed.Link) {
	if l != nil {
		l.CA.Sever(false)
	}
}

func (w *world) linkB() *bed.Link {
	if !healthy(w.lb) {
		drop(w.lb)
		w.lb, _ = bed.Connect(w.caller, w.be.Peer, raw, raw, nil)
	}
	return w.lb
}

func (w *world) linkP() *bed.Link {
	if !healthy(w.lp) {
		drop(w.lp)
		w.lp, _ = bed.Connect(w.caller, w.plain, raw, raw, nil)
	}
	return w.lp
}

func (w *world) getTopo(mc bool) *pxy.Topo {
	p := &w.topo
	kind := "session"
	if mc {
		p, kind = &w.topoMC, "multiclient"
	}
	ok := *p != nil && (*p).CP.A.Health()
	if ok && !mc {
		for i := 0; i < 2; i++ {
			if !(*p).FB[i].A.Health() {
				ok = false
			}
		}
	}
	if !ok {
		if *p != nil {
			(*p).Close()
		}
		t, err := pxy.Build(pxy.Options{Proto: "raw", FwdKind: kind, NoDirect: true})
		if err != nil {
			return nil
		}
		*p = t
	}
	return *p
}

func (w *world) dropTopo(mc bool) {
	p := &w.topo
	if mc {
		p = &w.topoMC
	}
	if *p != nil {
		(*p).Close()
		*p = nil
	}
}

// call issues a call with the stuck-call guard.
func call(sess erpc.Session, method string, arg, res interface{}, st ...erpc.MessageSetting) (protos.Triple, string) {
	if res == nil {
		res = new([]byte)
	}
	cmd := sess.AsyncCall(method, arg, res, make(chan erpc.CallCmd, 1), st...)
	if why := pxy.Await(cmd.Done(), watchdog); why != "" {
		return protos.Triple{}, why
	}
	hold(cmd.Status())
	return protos.StatusTriple(cmd.Status()), ""
}

// ---------- steps ----------

type stepResult struct {
	effective bool
	async     bool
	note      string
}

func eff(ok bool, note string) stepResult { return stepResult{effective: ok, note: note} }

type stepDef struct {
	class  string
	weight int
	fn     func(w *world) stepResult
}

func pid(p *pxy.Plan) erpc.MessageSetting { return erpc.WithAddMeta(pxy.PidKey, p.ID) }

func stepCallOK(w *world) stepResult {
	t, s := call(w.linkB().A, "/a/echo", []byte("x"), nil)
	return eff(s == "" && t.Code == 0, fmt.Sprint(t, s))
}

func stepPushOK(w *world) stepResult {
	p := w.plan()
	defer p.Drop()
	st := w.linkB().A.Push("/a/note", []byte("x"), pid(p))
	ok := st.OK() && pxy.WaitCount(func() bool { return p.Count(-1) == 1 }, watchdog)
	return eff(ok, st.String())
}

func stepCallHandlerStatus(w *world) stepResult {
	p := w.plan()
	defer p.Drop()
	codes := []int32{1001, 404, 500, 400, 405, 102, 105, -1, 1}
	c := codes[w.r.Intn(len(codes))]
	p.Stat = &protos.Triple{Code: c, Msg: erpc.CodeText(c), Cause: "from handler"}
	t, s := call(w.linkB().A, "/a/echo", []byte("x"), nil, pid(p))
	return eff(s == "" && t.Code == c, fmt.Sprint(t, s))
}

func stepCallUnknownRoute(w *world) stepResult {
	t, s := call(w.linkP().A, "/no/such/route", []byte("x"), nil)
	return eff(s == "" && t.Code == 404, fmt.Sprint(t, s))
}

func stepPushUnknownRoute(w *world) stepResult {
	st := w.linkP().A.Push("/no/such/route", []byte("x"))
	return stepResult{effective: st.OK(), async: true}
}

func stepEmptyMethod(w *world) stepResult {
	t, s := call(w.linkP().A, "", []byte("x"), nil)
	st := w.linkP().A.Push("", []byte("x"))
	return stepResult{effective: s == "" && t.Code == 400 && st.OK(), async: true, note: fmt.Sprint(t, s, st)}
}

func stepCallBadBody(w *world) stepResult {
	t, s := call(w.linkP().A, "/a/tjson", []byte("{not json"), nil, erpc.WithBodyCodec('j'))
	return eff(s == "" && t.Code == 400, fmt.Sprint(t, s))
}

func stepCallPanic(w *world) stepResult {
	p := w.plan()
	defer p.Drop()
	p.Panic = true
	t, s := call(w.linkB().A, "/a/echo", []byte("x"), nil, pid(p))
	return eff(s == "" && t.Code == 500, fmt.Sprint(t, s))
}

func stepPushPanic(w *world) stepResult {
	p := w.plan()
	defer p.Drop()
	p.Panic = true
	st := w.linkB().A.Push("/a/note", []byte("x"), pid(p))
	ok := st.OK() && pxy.WaitCount(func() bool { return p.Count(-1) == 1 }, watchdog)
	return stepResult{effective: ok, async: true}
}

func stepClosedSessionCall(w *world) stepResult {
	l, err := bed.Connect(w.caller, w.be.Peer, raw, raw, nil)
	if err != nil {
		return eff(false, err.Error())
	}
	l.A.Close()
	t, s := call(l.A, "/a/echo", []byte("x"), nil)
	drop(l)
	return eff(s == "" && t.Code != 0, fmt.Sprint(t, s))
}

func stepClosedSessionPush(w *world) stepResult {
	l, err := bed.Connect(w.caller, w.be.Peer, raw, raw, nil)
	if err != nil {
		return eff(false, err.Error())
	}
	l.A.Close()
	st := l.A.Push("/a/note", []byte("x"))
	drop(l)
	return eff(!st.OK(), st.String())
}

func severPending(w *world, reset bool) stepResult {
	l, err := bed.Connect(w.caller, w.be.Peer, raw, raw, nil)
	if err != nil {
		return eff(false, err.Error())
	}
	p := w.plan()
	defer p.Drop()
	p.Park = make(chan struct{})
	cmd := l.A.AsyncCall("/a/echo", []byte("x"), new([]byte), make(chan erpc.CallCmd, 1), pid(p))
	if !pxy.WaitCount(func() bool { return p.Count(-1) == 1 }, watchdog) {
		close(p.Park)
		drop(l)
		return eff(false, "request did not reach the handler")
	}
	l.CA.Sever(reset)
	why := pxy.Await(cmd.Done(), watchdog)
	close(p.Park)
	if why != "" {
		return stepResult{note: why}
	}
	return stepResult{effective: cmd.Status().Code() != 0, note: cmd.Status().String()}
}

func stepSeverPendingEOF(w *world) stepResult   { return severPending(w, false) }
func stepSeverPendingReset(w *world) stepResult { return severPending(w, true) }

func stepSeverThenCall(w *world) stepResult {
	l, err := bed.Connect(w.caller, w.be.Peer, raw, raw, nil)
	if err != nil {
		return eff(false, err.Error())
	}
	l.CA.Sever(w.r.Intn(2) == 0)
	bed.WaitUntil(5*time.Second, func() bool { return !l.A.Health() })
	t, s := call(l.A, "/a/echo", []byte("x"), nil)
	st := l.A.Push("/a/note", []byte("x"))
	return stepResult{effective: s == "" && t.Code != 0 && !st.OK(), async: true, note: fmt.Sprint(t, s, st)}
}

func stepMtype(w *world) stepResult {
	l, err := bed.Connect(w.caller, w.be.Peer, raw, raw, nil)
	if err != nil {
		return eff(false, err.Error())
	}
	st := l.A.Push("/a/note", []byte("x"), erpc.WithAddMeta("Mtype9", "1"))
	closed := pxy.Await(l.A.CloseNotify(), watchdog) == ""
	t, s := call(l.A, "/a/echo", []byte("x"), nil)
	drop(l)
	return stepResult{effective: st.OK() && closed && s == "" && t.Code != 0, async: true, note: fmt.Sprint(st, closed, t, s)}
}

func stepWriteFailed(w *world) stepResult {
	ctx, cancel := context.WithCancel(context.Background())
	cancel()
	t, s := call(w.linkB().A, "/a/echo", []byte("x"), nil, erpc.WithContext(ctx))
	st := w.linkB().A.Push("/a/note", []byte("x"), erpc.WithContext(ctx))
	return eff(s == "" && t.Code == erpc.CodeWriteFailed && st.Code() == erpc.CodeWriteFailed, fmt.Sprint(t, s, st))
}

func stepPreSendUnprepared(w *world) stepResult {
	ps, ok := w.linkB().A.(erpc.PreSession)
	if !ok {
		return eff(false, "session is no PreSession")
	}
	st := ps.PreSend(erpc.TypeCall, "/a/echo", nil, nil)
	return eff(st.Code() == erpc.CodeInvalidOp, st.String())
}

func stepVetoRead(w *world) stepResult {
	t, s := call(w.linkB().A, "/a/vetoed", []byte("x"), nil)
	st := w.linkB().A.Push("/a/vetoed", []byte("x"))
	return stepResult{effective: s == "" && t.Code == 4031 && st.OK(), async: true, note: fmt.Sprint(t, s)}
}

func stepVetoWrite(w *world) stepResult {
	t, s := call(w.linkB().A, "/a/echo", []byte("x"), nil, erpc.WithAddMeta("Veto", "1"))
	st := w.linkB().A.Push("/a/note", []byte("x"), erpc.WithAddMeta("Veto", "1"))
	return eff(s == "" && t.Code == 4032 && st.Code() == 4032, fmt.Sprint(t, s, st))
}

func stepVetoAccept(w *world) stepResult {
	atomic.StoreInt32(w.veto, 1)
	l, err := bed.Connect(w.caller, w.be.Peer, raw, raw, nil)
	atomic.StoreInt32(w.veto, 0)
	if err == nil {
		drop(l)
		return eff(false, "connection accepted")
	}
	return stepResult{effective: strings.Contains(err.Error(), "4033"), note: err.Error()}
}

func stepDialFailed(w *world) stepResult {
	if w.deadAddr == "" {
		return eff(false, "no dead address")
	}
	_, st := w.caller.Dial(w.deadAddr, raw)
	return eff(st.Code() == erpc.CodeDialFailed, st.String())
}

// proxy steps

func proxyCallUp(w *world, mc bool) stepResult {
	t := w.getTopo(mc)
	if t == nil {
		return eff(false, "no topology")
	}
	b := w.r.Intn(2)
	tr, s := call(t.CP.A, []string{"/a/echo", "/b/echo"}[b], []byte("x"), nil)
	return eff(s == "" && tr.Code == 0, fmt.Sprint(tr, s))
}

func proxyPushUp(w *world, mc bool) stepResult {
	t := w.getTopo(mc)
	if t == nil {
		return eff(false, "no topology")
	}
	p := w.plan()
	defer p.Drop()
	st := t.CP.A.Push("/a/note", []byte("x"), pid(p))
	ok := st.OK() && pxy.WaitCount(func() bool { return p.Count(-1) == 1 }, watchdog)
	return stepResult{effective: ok, async: true}
}

// backend0Noticed tells whether the forwarder has noticed that its connection to backend 0 is gone.
func backend0Noticed(t *pxy.Topo) bool {
	if t.FwdKind != "multiclient" {
		return !t.FB[0].A.Health()
	}
	all := true
	t.F.RangeSession(func(s erpc.Session) bool {
		if s.RemoteAddr().String() == t.Srv[0].Addr() && s.Health() {
			all = false
		}
		return true
	})
	return all
}

// killBackend0 makes backend 0 of the topology unreachable for the forwarder and waits until the forwarder noticed.
func killBackend0(w *world, t *pxy.Topo) string {
	how := "multiclient-down"
	if t.FwdKind == "multiclient" {
		t.Srv[0].Down()
		bed.WaitUntil(5*time.Second, func() bool { return backend0Noticed(t) })
		return how
	}
	switch w.r.Intn(4) {
	case 0:
		how = "forwarder-close"
		t.FB[0].A.Close()
	case 1:
		how = "backend-close"
		t.FB[0].B.Close()
	case 2:
		how = "sever-eof"
		t.FB[0].CA.Sever(false)
	default:
		how = "sever-reset"
		t.FB[0].CA.Sever(true)
	}
	bed.WaitUntil(5*time.Second, func() bool { return backend0Noticed(t) })
	return how
}

func proxyCallDown(w *world, mc bool) stepResult {
	t := w.getTopo(mc)
	if t == nil {
		return eff(false, "no topology")
	}
	how := killBackend0(w, t)
	tr, s := call(t.CP.A, "/a/echo", []byte("x"), nil)
	tr2, s2 := call(t.CP.A, "/b/echo", []byte("x"), nil)
	w.dropTopo(mc)
	return stepResult{effective: s == "" && tr.Code != 0 && s2 == "" && tr2.Code == 0, note: fmt.Sprint(how, tr, s)}
}

func proxyPushDown(w *world, mc bool) stepResult {
	t := w.getTopo(mc)
	if t == nil {
		return eff(false, "no topology")
	}
	how := killBackend0(w, t)
	done0 := atomic.LoadInt64(&t.Fw[0].PushDone)
	st := t.CP.A.Push("/a/note", []byte("x"))
	ok := st.OK() && pxy.WaitCount(func() bool { return atomic.LoadInt64(&t.Fw[0].PushDone) > done0 }, watchdog)
	code := atomic.LoadInt32(&t.Fw[0].LastPushCode)
	pxy.Settle(2*time.Second, 2, nil) // the plug-in finishes the push after the forwarder returned
	w.dropTopo(mc)
	return stepResult{effective: ok && code != 0, note: fmt.Sprintf("%s: forwarder push returned code %d", how, code)}
}

func proxyCallCutMid(w *world, mc bool) stepResult {
	t := w.getTopo(mc)
	if t == nil {
		return eff(false, "no topology")
	}
	p := w.plan()
	defer p.Drop()
	p.Park = make(chan struct{})
	cmd := t.CP.A.AsyncCall("/a/echo", []byte("x"), new([]byte), make(chan erpc.CallCmd, 1), pid(p))
	if !pxy.WaitCount(func() bool { return p.Count(-1) == 1 }, watchdog) {
		close(p.Park)
		w.dropTopo(mc)
		return eff(false, "request did not reach the backend")
	}
	if mc {
		t.Srv[0].CutConns()
	} else {
		t.FB[0].CA.Sever(w.r.Intn(2) == 0)
	}
	why := pxy.Await(cmd.Done(), watchdog)
	close(p.Park)
	w.dropTopo(mc)
	if why != "" {
		return stepResult{note: why}
	}
	return stepResult{effective: cmd.Status().Code() != 0, note: cmd.Status().String()}
}

func proxyPushCutMid(w *world, mc bool) stepResult {
	t := w.getTopo(mc)
	if t == nil {
		return eff(false, "no topology")
	}
	p := w.plan()
	defer p.Drop()
	p.Park = make(chan struct{})
	done0 := atomic.LoadInt64(&t.Fw[0].PushDone)
	st := t.CP.A.Push("/a/note", []byte("x"), pid(p))
	ok := st.OK() && pxy.WaitCount(func() bool { return p.Count(-1) == 1 }, watchdog)
	if mc {
		t.Srv[0].CutConns()
	} else {
		t.FB[0].CA.Sever(w.r.Intn(2) == 0)
	}
	// a second push once the forwarder has noticed the cut
	bed.WaitUntil(5*time.Second, func() bool { return backend0Noticed(t) })
	st2 := t.CP.A.Push("/a/note", []byte("y"))
	pxy.WaitCount(func() bool { return atomic.LoadInt64(&t.Fw[0].PushDone) >= done0+2 }, watchdog)
	close(p.Park)
	pxy.Settle(2*time.Second, 2, nil)
	w.dropTopo(mc)
	return stepResult{effective: ok && st2.OK()}
}

func stepProxyBackend1xx(w *world) stepResult {
	t := w.getTopo(false)
	if t == nil {
		return eff(false, "no topology")
	}
	p := w.plan()
	defer p.Drop()
	codes := []int32{100, 102, 104, 105, 150}
	c := codes[w.r.Intn(len(codes))]
	p.Stat = &protos.Triple{Code: c, Msg: erpc.CodeText(c), Cause: "from backend handler"}
	tr, s := call(t.CP.A, "/a/echo", []byte("x"), nil, pid(p))
	return eff(s == "" && tr.Code != 0, fmt.Sprint(tr, s))
}

// auth steps (Dial is needed for the bearer side: loopback TCP)

func (w *world) authFixture() bool {
	if w.authSrv != nil {
		return true
	}
	checker := auth.NewCheckerPlugin(func(sess auth.Session, fn auth.RecvOnce) (interface{}, *erpc.Status) {
		var info string
		if st := fn(&info); !st.OK() {
			return nil, st
		}
		if info != "good-token" {
			return nil, erpc.NewStatus(erpc.CodeUnauthorized, erpc.CodeText(erpc.CodeUnauthorized), "bad token")
		}
		return "welcome", nil
	}, erpc.WithBodyCodec('s'))
	srv := erpc.NewPeer(erpc.PeerConfig{}, checker)
	srv.SubRoute("/a").RouteCallFunc(pxy.Tbytes)
	var err error
	if w.authSrv, err = pxy.NewTCPServer(srv, raw); err != nil {
		w.authSrv = nil
		return false
	}
	bearer := func(token string) erpc.Plugin {
		return auth.NewBearerPlugin(func(sess auth.Session, fn auth.SendOnce) *erpc.Status {
			var ret string
			return fn(token, &ret)
		}, erpc.WithBodyCodec('s'))
	}
	w.authGood = erpc.NewPeer(erpc.PeerConfig{}, bearer("good-token"))
	w.authBad = erpc.NewPeer(erpc.PeerConfig{}, bearer("wrong-token"))
	// misuse: SendOnce / RecvOnce called twice (the plug-in answers with its package-level statuses)
	w.authTwice = erpc.NewPeer(erpc.PeerConfig{}, auth.NewBearerPlugin(func(sess auth.Session, fn auth.SendOnce) *erpc.Status {
		var ret string
		if st := fn("good-token", &ret); !st.OK() {
			return st
		}
		return fn("good-token", &ret)
	}, erpc.WithBodyCodec('s')))
	srv2 := erpc.NewPeer(erpc.PeerConfig{}, auth.NewCheckerPlugin(func(sess auth.Session, fn auth.RecvOnce) (interface{}, *erpc.Status) {
		var info string
		if st := fn(&info); !st.OK() {
			return nil, st
		}
		return nil, fn(&info)
	}, erpc.WithBodyCodec('s')))
	if w.authSrv2, err = pxy.NewTCPServer(srv2, raw); err != nil {
		w.authSrv2 = nil
	}
	return true
}

func stepAuthAccept(w *world) stepResult {
	if !w.authFixture() {
		return eff(false, "no listener")
	}
	sess, st := w.authGood.Dial(w.authSrv.Addr(), raw)
	if !st.OK() {
		return eff(false, st.String())
	}
	tr, s := call(sess, "/a/tbytes", []byte("x"), nil)
	go sess.Close()
	return stepResult{effective: s == "" && tr.Code == 0, note: fmt.Sprint(tr, s)}
}

func stepAuthReject(w *world) stepResult {
	if !w.authFixture() {
		return eff(false, "no listener")
	}
	sess, st := w.authBad.Dial(w.authSrv.Addr(), raw)
	if st.OK() {
		go sess.Close()
		return eff(false, "accepted")
	}
	return stepResult{effective: true, note: st.String()}
}

func stepAuthMisuse(w *world) stepResult {
	if !w.authFixture() || w.authSrv2 == nil {
		return eff(false, "no listener")
	}
	_, st1 := w.authTwice.Dial(w.authSrv.Addr(), raw)
	_, st2 := w.authGood.Dial(w.authSrv2.Addr(), raw)
	return stepResult{effective: !st1.OK() && !st2.OK(), note: fmt.Sprint(st1, " / ", st2)}
}

// overloader steps: a fresh server per step (its slot accounting is the business of C18)

func overloadServer(cfg overloader.LimitConfig) erpc.Peer {
	srv := erpc.NewPeer(erpc.PeerConfig{}, overloader.New(cfg))
	srv.SubRoute("/a").RouteCallFunc(pxy.Tbytes)
	srv.SetUnknownPush(func(ctx erpc.UnknownPushCtx) *erpc.Status { return nil })
	return srv
}

func stepOverloadConn(w *world) stepResult {
	srv := overloadServer(overloader.LimitConfig{MaxConn: 2})
	var links []*bed.Link
	rejected := ""
	for i := 0; i < 4; i++ {
		l, err := bed.Connect(w.caller, srv, raw, raw, nil)
		if err != nil {
			rejected = err.Error()
			break
		}
		links = append(links, l)
	}
	for _, l := range links {
		drop(l)
	}
	go srv.Close()
	return stepResult{effective: strings.Contains(rejected, "overload"), note: rejected}
}

func overloadQPS(w *world, push bool) stepResult {
	srv := overloadServer(overloader.LimitConfig{QPSInterval: time.Second, MaxTotalQPS: 2})
	l, err := bed.Connect(w.caller, srv, raw, raw, nil)
	if err != nil {
		return eff(false, err.Error())
	}
	rejected := 0
	for i := 0; i < 6; i++ {
		if push {
			l.A.Push("/a/note", []byte("x"))
			continue
		}
		t, s := call(l.A, "/a/tbytes", []byte("x"), nil)
		if s == "" && t.Code == 500 && strings.Contains(t.Msg, "overload") {
			rejected++
		}
	}
	drop(l)
	go srv.Close()
	return stepResult{effective: push || rejected > 0, async: push, note: fmt.Sprint("rejected ", rejected)}
}

// secure steps

const key1, key2 = "0123456789abcdef", "fedcba9876543210"

func (w *world) secureFixture() bool {
	if w.secSrv == nil {
		w.secSrv = erpc.NewPeer(erpc.PeerConfig{}, secure.NewPlugin(5001, key1))
		w.secSrv.SubRoute("/a").RouteCallFunc(pxy.Tjson)
		w.secSrv.SubRoute("/a").RoutePushFunc(pxy.Pjson)
		w.secGood = erpc.NewPeer(erpc.PeerConfig{}, secure.NewPlugin(5002, key1))
		w.secBad = erpc.NewPeer(erpc.PeerConfig{}, secure.NewPlugin(5003, key2))
	}
	if !healthy(w.lsg) {
		drop(w.lsg)
		w.lsg, _ = bed.Connect(w.secGood, w.secSrv, raw, raw, nil)
	}
	if !healthy(w.lsb) {
		drop(w.lsb)
		w.lsb, _ = bed.Connect(w.secBad, w.secSrv, raw, raw, nil)
	}
	return w.lsg != nil && w.lsb != nil
}

func stepSecureOK(w *world) stepResult {
	if !w.secureFixture() {
		return eff(false, "no fixture")
	}
	var res pxy.Arg
	t, s := call(w.lsg.A, "/a/tjson", &pxy.Arg{Tok: "t", Pay: "p", N: 1}, &res, secure.WithSecureMeta())
	return eff(s == "" && t.Code == 0 && res.Tok == "R:t", fmt.Sprint(t, s))
}

func stepSecureMismatchCall(w *world) stepResult {
	if !w.secureFixture() {
		return eff(false, "no fixture")
	}
	var res pxy.Arg
	t, s := call(w.lsb.A, "/a/tjson", &pxy.Arg{Tok: "t", Pay: "p", N: 1}, &res, secure.WithSecureMeta())
	return eff(s == "" && t.Code == 5001, fmt.Sprint(t, s))
}

func stepSecureMismatchReply(w *world) stepResult {
	if !w.secureFixture() {
		return eff(false, "no fixture")
	}
	var res pxy.Arg
	// plain request, encrypted reply requested: the caller cannot decrypt it
	t, s := call(w.lsb.A, "/a/tjson", &pxy.Arg{Tok: "t", Pay: "p", N: 1}, &res, secure.WithAcceptSecureMeta(true))
	return eff(s == "" && t.Code == 5003, fmt.Sprint(t, s))
}

func stepSecureMismatchPush(w *world) stepResult {
	if !w.secureFixture() {
		return eff(false, "no fixture")
	}
	st := w.lsb.A.Push("/a/pjson", &pxy.Arg{Tok: "t", Pay: "p", N: 1}, secure.WithSecureMeta())
	return stepResult{effective: st.OK(), async: true}
}

// ignorecase steps

func (w *world) icFixture() bool {
	if w.icSrv == nil {
		w.icSrv = erpc.NewPeer(erpc.PeerConfig{}, ignorecase.NewIgnoreCase())
		w.icSrv.SubRoute("/a").RouteCallFunc(pxy.Tbytes)
	}
	if !healthy(w.lic) {
		drop(w.lic)
		w.lic, _ = bed.Connect(w.caller, w.icSrv, raw, raw, nil)
	}
	return w.lic != nil
}

func stepIgnoreCaseOK(w *world) stepResult {
	if !w.icFixture() {
		return eff(false, "no fixture")
	}
	t, s := call(w.lic.A, "/A/TBytes", []byte("x"), nil)
	return eff(s == "" && t.Code == 0, fmt.Sprint(t, s))
}

func stepIgnoreCase404(w *world) stepResult {
	if !w.icFixture() {
		return eff(false, "no fixture")
	}
	t, s := call(w.lic.A, "/A/NoSuch", []byte("x"), nil)
	st := w.lic.A.Push("/A/NoSuch", []byte("x"))
	return stepResult{effective: s == "" && t.Code == 404 && st.OK(), async: true, note: fmt.Sprint(t, s)}
}

// binder step

func (w *world) bindFixture() bool {
	if w.bindSrv == nil {
		w.bindSrv = erpc.NewPeer(erpc.PeerConfig{}, binder.NewStructArgsBinder(nil))
		w.bindSrv.RouteCallFunc(Bound)
	}
	if !healthy(w.lbind) {
		drop(w.lbind)
		w.lbind, _ = bed.Connect(w.caller, w.bindSrv, raw, raw, nil)
	}
	return w.lbind != nil
}

func stepBinderInvalid(w *world) stepResult {
	if !w.bindFixture() {
		return eff(false, "no fixture")
	}
	var res int
	// A out of range -> default error function (400); missing meta bkey -> custom code through fixStatus
	t1, s1 := call(w.lbind.A, "/bound", &BArg{A: 50}, &res, erpc.WithAddMeta("bkey", "v"))
	t2, s2 := call(w.lbind.A, "/bound", &BArg{A: 5}, &res)
	t3, s3 := call(w.lbind.A, "/bound", &BArg{A: 5}, &res, erpc.WithAddMeta("bkey", "v"))
	return eff(s1 == "" && s2 == "" && s3 == "" && t1.Code == 400 && t2.Code == 100002 && t3.Code == 0, fmt.Sprint(t1, t2, t3))
}

// heartbeat steps

func (w *world) hbFixture() {
	if w.hbPing[0] != nil {
		return
	}
	for i := 0; i < 2; i++ {
		w.hbCount[i] = &hbCounter{}
		w.hbPing[i] = erpc.NewPeer(erpc.PeerConfig{}, heartbeat.NewPing(3, i == 0))
		w.hbPong[i] = erpc.NewPeer(erpc.PeerConfig{}, heartbeat.NewPong(), w.hbCount[i])
		bed.Connect(w.hbPing[i], w.hbPong[i], raw, raw, nil)
	}
	w.hbManual = erpc.NewPeer(erpc.PeerConfig{})
}

func (w *world) hbLink() *bed.Link {
	w.hbFixture()
	if !healthy(w.lhb) {
		drop(w.lhb)
		w.lhb, _ = bed.Connect(w.hbManual, w.hbPong[0], raw, raw, nil)
	}
	return w.lhb
}

func stepHeartbeatCall(w *world) stepResult {
	l := w.hbLink()
	if l == nil {
		return eff(false, "no link")
	}
	t, s := call(l.A, heartbeat.HeartbeatServiceMethod, nil, new(struct{}), erpc.WithSetMeta("hb_", "5"))
	st := l.A.Push(heartbeat.HeartbeatServiceMethod, nil, erpc.WithSetMeta("hb_", "5"))
	return stepResult{effective: s == "" && t.Code == 0 && st.OK(), async: true, note: fmt.Sprint(t, s)}
}

func stepHeartbeatBadRate(w *world) stepResult {
	w.hbFixture()
	// the rate is only validated on the first heartbeat of a session: use a fresh one
	l, err := bed.Connect(w.hbManual, w.hbPong[1], raw, raw, nil)
	if err != nil {
		return eff(false, err.Error())
	}
	t, s := call(l.A, heartbeat.HeartbeatServiceMethod, nil, new(struct{}), erpc.WithSetMeta("hb_", "not-a-number"))
	drop(l)
	return stepResult{effective: s == "" && t.Code == 400, note: fmt.Sprint(t, s)}
}

func stepHeartbeatWait(w *world) stepResult {
	w.hbFixture()
	if w.hbWaited {
		// the background pings keep going; only the first occurrence per process waits for one
		n := atomic.LoadInt64(&w.hbCount[0].n) + atomic.LoadInt64(&w.hbCount[1].n)
		return eff(n > 0, fmt.Sprint("heartbeats so far ", n))
	}
	w.hbWaited = true
	n0 := [2]int64{atomic.LoadInt64(&w.hbCount[0].n), atomic.LoadInt64(&w.hbCount[1].n)}
	ok := bed.WaitUntil(8*time.Second, func() bool {
		return atomic.LoadInt64(&w.hbCount[0].n) > n0[0] && atomic.LoadInt64(&w.hbCount[1].n) > n0[1]
	})
	return stepResult{effective: ok}
}

func steps() []stepDef {
	mcv := func(f func(*world, bool) stepResult, mc bool) func(*world) stepResult {
		return func(w *world) stepResult { return f(w, mc) }
	}
	return append([]stepDef{
		{"call-ok", 4, stepCallOK},
		{"push-ok", 3, stepPushOK},
		{"call-handler-status", 3, stepCallHandlerStatus},
		{"call-unknown-route", 3, stepCallUnknownRoute},
		{"push-unknown-route", 2, stepPushUnknownRoute},
		{"call-bad-body", 3, stepCallBadBody},
		{"empty-method", 2, stepEmptyMethod},
		{"call-panic", 2, stepCallPanic},
		{"push-panic", 2, stepPushPanic},
		{"closed-session-call", 3, stepClosedSessionCall},
		{"closed-session-push", 3, stepClosedSessionPush},
		{"sever-pending-call-eof", 2, stepSeverPendingEOF},
		{"sever-pending-call-reset", 2, stepSeverPendingReset},
		{"sever-then-call", 2, stepSeverThenCall},
		{"mtype-unsupported", 2, stepMtype},
		{"write-failed", 2, stepWriteFailed},
		{"presend-unprepared", 1, stepPreSendUnprepared},
		{"plugin-veto-read", 2, stepVetoRead},
		{"plugin-veto-write", 2, stepVetoWrite},
		{"plugin-veto-accept", 2, stepVetoAccept},
		{"dial-failed", 1, stepDialFailed},
		{"proxy-call-up", 3, mcv(proxyCallUp, false)},
		{"proxy-push-up", 3, mcv(proxyPushUp, false)},
		{"proxy-call-down", 3, mcv(proxyCallDown, false)},
		{"proxy-push-down", 3, mcv(proxyPushDown, false)},
		{"proxy-call-cut-mid", 2, mcv(proxyCallCutMid, false)},
		{"proxy-push-cut-mid", 2, mcv(proxyPushCutMid, false)},
		{"proxy-call-backend-1xx", 2, stepProxyBackend1xx},
		{"proxy-mc-call-up", 1, mcv(proxyCallUp, true)},
		{"proxy-mc-push-up", 1, mcv(proxyPushUp, true)},
		{"proxy-mc-call-down", 2, mcv(proxyCallDown, true)},
		{"proxy-mc-push-down", 2, mcv(proxyPushDown, true)},
		{"proxy-mc-call-cut-mid", 1, mcv(proxyCallCutMid, true)},
		{"proxy-mc-push-cut-mid", 1, mcv(proxyPushCutMid, true)},
		{"auth-accept", 2, stepAuthAccept},
		{"auth-reject", 2, stepAuthReject},
		{"auth-misuse", 1, stepAuthMisuse},
		{"overloader-conn-reject", 2, stepOverloadConn},
		{"overloader-qps-reject-call", 2, func(w *world) stepResult { return overloadQPS(w, false) }},
		{"overloader-qps-reject-push", 1, func(w *world) stepResult { return overloadQPS(w, true) }},
		{"secure-ok", 2, stepSecureOK},
		{"secure-key-mismatch-call", 2, stepSecureMismatchCall},
		{"secure-key-mismatch-reply", 2, stepSecureMismatchReply},
		{"secure-key-mismatch-push", 1, stepSecureMismatchPush},
		{"ignorecase-ok", 1, stepIgnoreCaseOK},
		{"ignorecase-404", 2, stepIgnoreCase404},
		{"binder-invalid-param", 2, stepBinderInvalid},
		{"heartbeat-manual", 2, stepHeartbeatCall},
		{"heartbeat-bad-rate", 2, stepHeartbeatBadRate},
		{"heartbeat-ping", 1, stepHeartbeatWait},
	}, append(append(append(append(authIOSteps(), replyFaultSteps()...), bearerSteps()...), setupSteps()...), replyReadSteps()...)...)
}

// ---------- monitors ----------

func snapshot() map[string]protos.Triple {
	m := map[string]protos.Triple{}
	for k, v := range erpc.VerifSentinels() {
		m[k] = protos.StatusTriple(v)
	}
	// exported package-level statuses of the auth plug-in are shared between connections as well
	m["auth.MultiSendErr"] = protos.StatusTriple(auth.MultiSendErr)
	m["auth.MultiRecvErr"] = protos.StatusTriple(auth.MultiRecvErr)
	return m
}

func statusObjects() map[string]*erpc.Status {
	m := erpc.VerifSentinels()
	m["auth.MultiSendErr"] = auth.MultiSendErr
	m["auth.MultiRecvErr"] = auth.MultiRecvErr
	return m
}

func diffFields(a, b protos.Triple) string {
	var f []string
	if a.Code != b.Code {
		f = append(f, "code")
	}
	if a.Msg != b.Msg {
		f = append(f, "msg")
	}
	if a.Cause != b.Cause {
		f = append(f, "cause")
	}
	return strings.Join(f, "+")
}

type probeObs struct {
	Triple protos.Triple `json:"status"`
	Extra  string        `json:"extra,omitempty"`
	Stuck  string        `json:"stuck,omitempty"`
	full   bool          // compare cause too
}

type probeDef struct {
	name string
	fn   func(w *world) probeObs
}

func probes() []probeDef {
	return []probeDef{
		{"closed-session-call", func(w *world) probeObs {
			l, err := bed.Connect(w.caller, w.be.Peer, raw, raw, nil)
			if err != nil {
				return probeObs{Stuck: err.Error()}
			}
			defer drop(l)
			l.A.Close()
			t, s := call(l.A, "/a/echo", []byte("x"), nil)
			return probeObs{Triple: t, Stuck: s, full: true}
		}},
		{"closed-session-push", func(w *world) probeObs {
			l, err := bed.Connect(w.caller, w.be.Peer, raw, raw, nil)
			if err != nil {
				return probeObs{Stuck: err.Error()}
			}
			defer drop(l)
			l.A.Close()
			return probeObs{Triple: protos.StatusTriple(l.A.Push("/a/note", []byte("x"))), full: true}
		}},
		{"pending-call-cut", func(w *world) probeObs {
			l, err := bed.Connect(w.caller, w.be.Peer, raw, raw, nil)
			if err != nil {
				return probeObs{Stuck: err.Error()}
			}
			defer drop(l)
			p := w.plan()
			defer p.Drop()
			p.Park = make(chan struct{})
			defer close(p.Park)
			cmd := l.A.AsyncCall("/a/echo", []byte("x"), new([]byte), make(chan erpc.CallCmd, 1), pid(p))
			if !pxy.WaitCount(func() bool { return p.Count(-1) == 1 }, watchdog) {
				return probeObs{Stuck: "request did not reach the handler"}
			}
			l.CA.Sever(false)
			if why := pxy.Await(cmd.Done(), watchdog); why != "" {
				return probeObs{Stuck: why}
			}
			return probeObs{Triple: protos.StatusTriple(cmd.Status()), full: true}
		}},
		{"unknown-route-call", func(w *world) probeObs {
			t, s := call(w.linkP().A, "/no/such/route", []byte("x"), nil)
			return probeObs{Triple: t, Stuck: s, full: true}
		}},
		{"bad-body-call", func(w *world) probeObs {
			t, s := call(w.linkP().A, "/a/tjson", []byte("{not json"), nil, erpc.WithBodyCodec('j'))
			return probeObs{Triple: t, Stuck: s, full: true}
		}},
		{"mtype-unsupported", func(w *world) probeObs {
			l, err := bed.Connect(w.caller, w.be.Peer, raw, raw, nil)
			if err != nil {
				return probeObs{Stuck: err.Error()}
			}
			defer drop(l)
			if st := l.A.Push("/a/note", []byte("x"), erpc.WithAddMeta("Mtype9", "1")); !st.OK() {
				return probeObs{Stuck: "sending failed: " + st.String()}
			}
			if why := pxy.Await(l.A.CloseNotify(), watchdog); why != "" {
				return probeObs{Extra: "not disconnected", full: true}
			}
			t, s := call(l.A, "/a/echo", []byte("x"), nil)
			return probeObs{Triple: t, Stuck: s, Extra: "disconnected", full: true}
		}},
		{"handler-panic-call", func(w *world) probeObs {
			p := w.plan()
			defer p.Drop()
			p.Panic = true
			t, s := call(w.linkB().A, "/a/echo", []byte("x"), nil, pid(p))
			return probeObs{Triple: t, Stuck: s} // code and standard msg only
		}},
		{"write-failed-call", func(w *world) probeObs {
			ctx, cancel := context.WithCancel(context.Background())
			cancel()
			t, s := call(w.linkB().A, "/a/echo", []byte("x"), nil, erpc.WithContext(ctx))
			return probeObs{Triple: t, Stuck: s, full: true}
		}},
		{"presend-unprepared", func(w *world) probeObs {
			ps, ok := w.linkB().A.(erpc.PreSession)
			if !ok {
				return probeObs{Stuck: "no PreSession"}
			}
			return probeObs{Triple: protos.StatusTriple(ps.PreSend(erpc.TypeCall, "/a/echo", nil, nil)), full: true}
		}},
		{"pre-phase-misuse", func(w *world) probeObs {
			// the other pre-phase operations on an established session: all must report the pristine Invalid Operation status
			ps, ok := w.linkB().A.(erpc.PreSession)
			if !ok {
				return probeObs{Stuck: "no PreSession"}
			}
			m := ps.PreReceive(func(erpc.Header) interface{} { return nil })
			t := protos.StatusTriple(m.Status())
			socket.PutMessage(m)
			var res []byte
			pc := protos.StatusTriple(ps.PreCall("/a/echo", []byte("x"), &res))
			req := socket.NewMessage()
			req.SetSeq(1)
			pr := protos.StatusTriple(ps.PreReply(req, nil, nil))
			return probeObs{Triple: t, Extra: fmt.Sprintf(" PreCall=%+v PreReply=%+v", pc, pr), full: true}
		}},
		{"dial-failed", func(w *world) probeObs {
			if w.deadAddr == "" {
				return probeObs{Stuck: "no dead address"}
			}
			_, st := w.caller.Dial(w.deadAddr, raw)
			return probeObs{Triple: protos.StatusTriple(st)} // the cause names the OS error: code and msg only
		}},
		// a reply that is bound to its call and then cannot be read while its body codec is unknown
		{"reply-unreadable-call", func(w *world) probeObs { return rrProbe("raw", "codec0-body") }},
		{"reply-unreadable-http", func(w *world) probeObs { return rrProbe("http", "299-garbage-noctype") }},
		{"reply-unreadable-struct", func(w *world) probeObs { return rrProbe("thrift-struct", "malformed-string") }},
	}
}

func probeKey(o probeObs) protos.Triple {
	t := o.Triple
	if !o.full {
		t.Cause = ""
	}
	t.Msg = t.Msg + o.Extra
	return t
}

var expectProbe = map[string]int32{
	"closed-session-call": 102, "closed-session-push": 102, "pending-call-cut": 102, "unknown-route-call": 404, "bad-body-call": 400,
	"mtype-unsupported": 102, "handler-panic-call": 500, "write-failed-call": 104, "presend-unprepared": 1, "pre-phase-misuse": 1, "dial-failed": 105,
	"reply-unreadable-call": 400, "reply-unreadable-http": 400, "reply-unreadable-struct": 400,
}

type monitor struct {
	sent      map[string]protos.Triple
	probe     map[string]probeObs
	probeSeq  map[string]int
	reported  map[string]bool
	pdefs     []probeDef
	sent0     map[string]protos.Triple // start-of-process values
	probe0    map[string]probeObs
	dirty     bool
	changeSeq int    // number of sentinel changes detected so far
	changeBy  string // class of the operation after which the latest change was detected
}

func emitViolation(hid string, desc interface{}, fp, what string, witness interface{}) {
	core.Add("violating_observations", 1)
	rid := fmt.Sprintf("%s#%s", hid, fp)
	core.Begin(rid, desc)
	core.Result(core.R{ID: rid, Verdict: core.Violated, FP: fp, What: what, Witness: witness, Desc: desc})
}

// sentinels compares every sentinel with the reference. A change is reported once per (sentinel, class of
// the operation that preceded it) and the reference is renewed, so that later, different changes are still seen.
func (m *monitor) sentinels(hid string, desc interface{}, class string, stepIdx int, note string, history []string) {
	cur := snapshot()
	core.Add("sentinel_comparisons", int64(len(cur)))
	var names []string
	for k := range cur {
		names = append(names, k)
	}
	sort.Strings(names)
	for _, k := range names {
		if cur[k] == m.sent[k] {
			continue
		}
		m.changeSeq++
		m.changeBy = class
		key := k + "/" + class
		if !m.reported[key] {
			m.reported[key] = true
			fp := fmt.Sprintf("%s/%s/%s/%s-changed", *prop, k, class, diffFields(m.sent[k], cur[k]))
			emitViolation(hid, desc, fp,
				fmt.Sprintf("shared status %s was %+v, after a %q operation it is %+v (every later failure sharing it reports the new values)", k, m.sent[k], class, cur[k]),
				map[string]interface{}{"sentinel": k, "before": m.sent[k], "after": cur[k], "operation_class": class, "step_index": stepIdx, "step_note": note, "history_so_far": history})
		}
		m.sent[k] = cur[k]
		m.dirty = true
	}
}

// restore puts the start-of-process values back through the public setters (after the probes have shown the
// caller-visible effect), so that the same change made by another operation class later in this process is
// seen as well. If that does not work the renewed references stay.
func (m *monitor) restore() {
	if !m.dirty {
		return
	}
	m.dirty = false
	objs := statusObjects()
	for k, want := range m.sent0 {
		if st := objs[k]; st != nil && protos.StatusTriple(st) != want {
			st.SetCode(want.Code)
			st.SetMsg(want.Msg)
			st.SetCause(want.Cause)
		}
	}
	now := snapshot()
	for k, want := range m.sent0 {
		if now[k] != want {
			m.sent = now
			core.Add("sentinel_reference_renewed", 1)
			return
		}
	}
	core.Add("sentinels_restored_after_report", 1)
	m.sent = now
	for k, v := range m.probe0 {
		m.probe[k], m.probeSeq[k] = v, m.changeSeq
	}
}

// check runs after every history step: sentinels first (attributed to the step), then the fixed failure probes;
// a probe is a failing operation itself, so the sentinels are compared again after each one (attributed to the probe).
func (m *monitor) check(w *world, hid string, desc interface{}, stepClass string, stepIdx int, note string, history []string) {
	m.sentinels(hid, desc, stepClass, stepIdx, note, history)
	m.heldCheck(hid, desc, stepClass, stepIdx, history)
	for _, pd := range m.pdefs {
		curOp = "probe:" + pd.name
		o := pd.fn(w)
		core.Add("probe_evaluations", 1)
		if o.Stuck != "" {
			core.Add("probes_inconclusive", 1)
			m.sentinels(hid, desc, "probe:"+pd.name, stepIdx, "", history)
			m.heldCheck(hid, desc, "probe:"+pd.name, stepIdx, history)
			continue
		}
		ref, ok := m.probe[pd.name]
		if !ok {
			m.probe[pd.name], m.probeSeq[pd.name] = o, m.changeSeq
		} else if probeKey(ref) != probeKey(o) {
			// blame the operation after which a shared status was last seen changing, if that happened since this
			// probe last agreed with its reference; otherwise the step that has just run
			by := stepClass
			if m.changeSeq > m.probeSeq[pd.name] {
				by = m.changeBy
			}
			key := "probe:" + pd.name + "/" + by
			if !m.reported[key] {
				m.reported[key] = true
				fp := fmt.Sprintf("%s/probe:%s/%s/%s-changed", *prop, pd.name, by, diffFields(probeKey(ref), probeKey(o)))
				emitViolation(hid, desc, fp,
					fmt.Sprintf("failure probe %s observed %+v %s before, %+v %s after a %q operation", pd.name, ref.Triple, ref.Extra, o.Triple, o.Extra, by),
					map[string]interface{}{"probe": pd.name, "before": ref, "after": o, "operation_class": by, "step_class": stepClass, "step_index": stepIdx, "step_note": note, "history_so_far": history})
			}
			m.probe[pd.name], m.probeSeq[pd.name] = o, m.changeSeq
		}
		m.sentinels(hid, desc, "probe:"+pd.name, stepIdx, "", history)
		m.heldCheck(hid, desc, "probe:"+pd.name, stepIdx, history)
	}
	m.restore()
}

type discard struct{}

func (discard) Output(calldepth int, msgBytes []byte, loggerLevel erpc.LoggerLevel) {}
func (discard) Flush() error                                                        { return nil }

func main() {
	flag.Parse()
	core.Prop = *prop
	wire.RegFilters()
	bed.Init("OFF")
	erpc.SetLoggerOutputter(discard{})
	if *replay != "" {
		rawf, err := ioutil.ReadFile(*replay)
		if err != nil {
			core.Fatalf("replay file: %v", err)
		}
		var rp struct {
			Batch int `json:"batch"`
		}
		if err := json.Unmarshal(rawf, &rp); err != nil {
			core.Fatalf("replay file: %v", err)
		}
		*batch = rp.Batch // a history depends on everything the process did before: the whole batch is re-run
	}
	var tStep, tSettle, tCheck time.Duration
	perClass := map[string]time.Duration{}
	nHist, nSteps := 100, 40
	if *tier == "thorough" {
		nHist, nSteps = 3000, 100
	}
	defs := steps()
	total := 0
	for _, d := range defs {
		total += d.weight
	}

	// start-of-process reference: sentinels first, then the probes in a pristine process
	m := &monitor{sent: snapshot(), sent0: snapshot(), probe: map[string]probeObs{}, probeSeq: map[string]int{}, reported: map[string]bool{}, pdefs: probes()}
	for k, v := range m.sent {
		core.Distinct("sentinels", k)
		_ = v
	}
	w := newWorld(core.NewRand(*seed, int64(*batch), 15))
	w.hbFixture()
	core.Begin("baseline", map[string]interface{}{"class": "baseline-probes"})
	m.check(w, "baseline", map[string]interface{}{"class": "baseline-probes"}, "process-start", -1, "", nil)
	bad := ""
	for name, want := range expectProbe {
		if o, ok := m.probe[name]; !ok || o.Triple.Code != want {
			bad += fmt.Sprintf(" %s=%+v", name, m.probe[name])
		}
	}
	if bad != "" {
		// the probes do not observe what they are meant to in a fresh process: nothing can be concluded from them
		core.Result(core.R{ID: "baseline", Verdict: core.Inconclusive, What: "baseline probes off:" + bad})
	} else {
		core.Result(core.R{ID: "baseline", Verdict: core.Held, Sig: "baseline", Nontrivial: true})
	}
	s0, p0 := map[string]protos.Triple{}, map[string]probeObs{}
	for k, v := range m.sent0 {
		s0[k] = v
	}
	for k, v := range m.probe {
		p0[k] = v
	}
	m.probe0 = p0
	core.Sample(map[string]interface{}{"sentinels_at_start": s0, "probes_at_start": p0})

	for h := 0; h < nHist; h++ {
		if h%*nbatch != *batch {
			continue
		}
		r := core.NewRand(*seed, int64(h), 151)
		w.r = r
		var classes []string
		var idx []int
		for i := 0; i < nSteps; i++ {
			x := r.Intn(total)
			for j, d := range defs {
				if x < d.weight {
					classes = append(classes, d.class)
					idx = append(idx, j)
					break
				}
				x -= d.weight
			}
		}
		hid := fmt.Sprintf("h%04d", h)
		desc := map[string]interface{}{"class": "history", "steps": classes}
		core.Begin(hid, desc)
		ineffective := 0
		prev := "start"
		for i, j := range idx {
			d := defs[j]
			t0 := time.Now()
			curOp = d.class
			res := d.fn(w)
			tStep += time.Since(t0)
			perClass[d.class] += time.Since(t0)
			core.Add("evaluations", 1)
			core.Add("steps/"+d.class, 1)
			if os.Getenv("C15_DEBUG") == "2" && (strings.HasPrefix(d.class, "auth-re") || strings.HasPrefix(d.class, "reply-fault") || strings.HasPrefix(d.class, "reply-read") || strings.HasPrefix(d.class, "bearer-") || strings.HasPrefix(d.class, "checker-") || strings.HasPrefix(d.class, "setup-")) {
				fmt.Fprintf(os.Stderr, "note %s: %s\n", d.class, res.note)
			}
			if res.effective {
				core.Add("steps_effective", 1)
				core.Distinct("nontrivial", prev+">"+d.class)
				core.Distinct("effective_step_classes", d.class)
			} else {
				ineffective++
				core.Add("steps_ineffective/"+d.class, 1)
				if os.Getenv("C15_DEBUG") != "" {
					fmt.Fprintf(os.Stderr, "ineffective %s: %s\n", d.class, res.note)
				}
			}
			t0 = time.Now()
			if res.async {
				pxy.Settle(3*time.Second, 2, nil)
			}
			tSettle += time.Since(t0)
			t0 = time.Now()
			m.check(w, hid, desc, d.class, i, res.note, classes[:i+1])
			tCheck += time.Since(t0)
			prev = d.class
		}
		if ineffective*4 > nSteps {
			core.Result(core.R{ID: hid, Verdict: core.Inconclusive, What: fmt.Sprintf("%d of %d steps did not have their intended effect", ineffective, nSteps)})
		} else {
			core.Result(core.R{ID: hid, Verdict: core.Held, Sig: hid, Nontrivial: true})
		}
		if h < 2 {
			core.Sample(desc)
		}
	}
	if os.Getenv("C15_DEBUG") != "" {
		for k, v := range perClass {
			fmt.Fprintf(os.Stderr, "classtime %8.1fms %s\n", float64(v)/1e6, k)
		}
		fmt.Fprintf(os.Stderr, "time: steps %v settle %v check %v goroutines %d\n", tStep, tSettle, tCheck, runtime.NumGoroutine())
	}
	core.Add("heartbeats_observed", atomic.LoadInt64(&w.hbCount[0].n)+atomic.LoadInt64(&w.hbCount[1].n))
	core.Finish()
	os.Exit(0)
}
