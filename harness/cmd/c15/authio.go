package main

// History steps that make the reads of the accept / dial phase fail (session.PreReceive, used by
// the auth plug-in's exchange): the checker side reads the AUTH_CALL from a scripted client over an
// in-memory connection, the bearer side reads the AUTH_REPLY from a scripted loopback TCP server.
// Flavours: clean EOF, truncated frame (cut inside the length prefix, the header, the body),
// garbage bytes, connection reset, a frame announcing more than the read limit, context-age timeout.

import (
	"bytes"
	"encoding/binary"
	"fmt"
	"io"
	"net"
	"sync/atomic"
	"time"

	erpc "github.com/henrylee2cn/erpc/v6"
	"github.com/henrylee2cn/erpc/v6/plugin/auth"
	"github.com/henrylee2cn/erpc/v6/socket"

	"verifharness/memconn"
	"verifharness/pxy"
)

const authAge = 15 * time.Millisecond

type authIO struct {
	srv, srvAge       erpc.Peer // checker side (plain / with a context age of a few ms)
	bearer, bearerAge erpc.Peer // bearer side
	lis               net.Listener
	script            chan string // flavour for the next accepted connection
	callFrame         []byte
	replyFrame        []byte
	lastRecv          atomic.Value // what the checker's RecvOnce returned last (string)
}

var aio *authIO

func authFrame(mtype byte, body string) []byte {
	var buf bytes.Buffer
	p := socket.RawProtoFunc(&buf)
	m := socket.NewMessage()
	m.SetMtype(mtype)
	m.SetSeq(1)
	m.SetBodyCodec('s')
	m.SetBody(&body)
	if err := p.Pack(m); err != nil {
		return nil
	}
	return append([]byte(nil), buf.Bytes()...)
}

func garbage(kind int) []byte {
	switch kind {
	case 0: // plausible length, no transfer pipe, header bytes that are no header
		b := []byte{0, 0, 0, 40, 0}
		for len(b) < 40 {
			b = append(b, 0xEE)
		}
		return b
	case 1: // transfer pipe naming a filter nobody registered
		b := []byte{0, 0, 0, 24, 1, 0x7f}
		for len(b) < 24 {
			b = append(b, 'x')
		}
		return b
	default: // printable text where a frame should be
		return []byte("GET / HTTP/1.1\r\nHost: example\r\n\r\n")
	}
}

func oversize() []byte {
	b := make([]byte, 12)
	binary.BigEndian.PutUint32(b, 0xFFFFFFF0) // far above the read limit
	return b
}

func getAuthIO() *authIO {
	if aio != nil {
		return aio
	}
	a := &authIO{script: make(chan string, 4)}
	checker := func() erpc.Plugin {
		return auth.NewCheckerPlugin(func(sess auth.Session, fn auth.RecvOnce) (interface{}, *erpc.Status) {
			var info string
			st := fn(&info)
			a.lastRecv.Store(st.String())
			if !st.OK() {
				return nil, st
			}
			return "welcome", nil
		}, erpc.WithBodyCodec('s'))
	}
	bearer := func() erpc.Plugin {
		return auth.NewBearerPlugin(func(sess auth.Session, fn auth.SendOnce) *erpc.Status {
			var ret string
			return fn("good-token", &ret)
		}, erpc.WithBodyCodec('s'))
	}
	a.srv = erpc.NewPeer(erpc.PeerConfig{}, checker())
	a.srvAge = erpc.NewPeer(erpc.PeerConfig{DefaultContextAge: authAge}, checker())
	a.bearer = erpc.NewPeer(erpc.PeerConfig{}, bearer())
	a.bearerAge = erpc.NewPeer(erpc.PeerConfig{DefaultContextAge: authAge}, bearer())
	a.callFrame = authFrame(erpc.TypeAuthCall, "good-token")
	a.replyFrame = authFrame(erpc.TypeAuthReply, "welcome")
	lis, err := net.Listen("tcp", "127.0.0.1:0")
	if err == nil {
		a.lis = lis
		go a.serve()
	}
	aio = a
	return a
}

// serve is the scripted far end of the bearer: it reads the AUTH_CALL and answers as the script says.
func (a *authIO) serve() {
	for {
		c, err := a.lis.Accept()
		if err != nil {
			return
		}
		flavour := "eof"
		select {
		case flavour = <-a.script:
		default:
		}
		go a.answer(c, flavour)
	}
}

func (a *authIO) answer(c net.Conn, flavour string) {
	defer c.Close()
	c.SetDeadline(time.Now().Add(5 * time.Second))
	// the AUTH_CALL frame: 4 bytes length, then the rest
	var l [4]byte
	if _, err := io.ReadFull(c, l[:]); err != nil {
		return
	}
	n := int(binary.BigEndian.Uint32(l[:]))
	if n < 4 || n > 1<<16 {
		return
	}
	if _, err := io.CopyN(io.Discard, c, int64(n-4)); err != nil {
		return
	}
	var k int
	fmt.Sscanf(flavour, "truncated:%d", &k)
	switch {
	case flavour == "eof":
	case k > 0:
		c.Write(a.replyFrame[:k%len(a.replyFrame)])
	case flavour == "garbage:0", flavour == "garbage:1", flavour == "garbage:2":
		c.Write(garbage(int(flavour[len(flavour)-1] - '0')))
	case flavour == "oversize":
		c.Write(oversize())
		io.Copy(io.Discard, c) // until the bearer gives up
	case flavour == "reset":
		c.Write(a.replyFrame[:5])
		if tc, ok := c.(*net.TCPConn); ok {
			tc.SetLinger(0) // RST instead of FIN
		}
	case flavour == "timeout":
		io.Copy(io.Discard, c) // silent until the bearer gives up
	}
}

var truncK = []int{1, 2, 3, 4, 5, 6, 9, 14, -3, -1} // negative: counted from the end of the frame

func cutPoint(frame []byte, i int) int {
	k := truncK[i%len(truncK)]
	if k < 0 {
		k = len(frame) + k
	}
	if k <= 0 || k >= len(frame) {
		k = len(frame) / 2
	}
	return k
}

// authReadFail: the checker's read of the AUTH_CALL fails.
func authReadFail(w *world, flavour string) stepResult {
	a := getAuthIO()
	if a.callFrame == nil {
		return eff(false, "no frame")
	}
	srv := a.srv
	if flavour == "timeout" {
		srv = a.srvAge
	}
	ca, cb := memconn.NewPair()
	done := make(chan struct{})
	var st *erpc.Status
	go func() {
		defer close(done)
		_, st = srv.ServeConn(cb, raw)
	}()
	note := flavour
	switch flavour {
	case "eof":
		ca.CloseWrite()
	case "truncated":
		k := cutPoint(a.callFrame, w.r.Intn(len(truncK)))
		note = fmt.Sprintf("truncated after %d of %d bytes", k, len(a.callFrame))
		ca.Write(a.callFrame[:k])
		ca.CloseWrite()
	case "garbage":
		g := w.r.Intn(3)
		note = fmt.Sprintf("garbage flavour %d", g)
		ca.Write(garbage(g))
		ca.CloseWrite()
	case "reset":
		if w.r.Intn(2) == 0 {
			k := cutPoint(a.callFrame, w.r.Intn(len(truncK)))
			note = fmt.Sprintf("reset after %d bytes", k)
			ca.Write(a.callFrame[:k])
		}
		ca.Sever(true)
	case "oversize":
		ca.Write(oversize())
	case "timeout":
		// silent far end
	}
	why := pxy.Await(done, watchdog)
	ca.Close()
	cb.Close()
	if why != "" {
		return stepResult{note: note + ": " + why}
	}
	recv, _ := a.lastRecv.Load().(string)
	return stepResult{effective: !st.OK(), note: note + " -> checker read: " + recv + " ; ServeConn: " + st.String()}
}

// authReplyFail: the bearer's read of the AUTH_REPLY fails.
func authReplyFail(w *world, flavour string) stepResult {
	a := getAuthIO()
	if a.lis == nil || a.replyFrame == nil {
		return eff(false, "no listener")
	}
	peer := a.bearer
	script := flavour
	switch flavour {
	case "truncated":
		script = fmt.Sprintf("truncated:%d", cutPoint(a.replyFrame, w.r.Intn(len(truncK))))
	case "garbage":
		script = fmt.Sprintf("garbage:%d", w.r.Intn(3))
	case "timeout":
		peer = a.bearerAge
	}
	select {
	case a.script <- script:
	default:
		return eff(false, "script queue full")
	}
	done := make(chan struct{})
	var st *erpc.Status
	var sess erpc.Session
	go func() {
		defer close(done)
		sess, st = peer.Dial(a.lis.Addr().String(), raw)
	}()
	if why := pxy.Await(done, watchdog); why != "" {
		return stepResult{note: script + ": " + why}
	}
	if st.OK() {
		go sess.Close()
		return eff(false, script+": dial succeeded")
	}
	return stepResult{effective: true, note: script + " -> " + st.String()}
}

func authIOSteps() []stepDef {
	var out []stepDef
	for _, f := range []string{"eof", "truncated", "garbage", "reset", "oversize", "timeout"} {
		f := f
		wgt := 2
		if f == "truncated" {
			wgt = 3
		}
		out = append(out, stepDef{"auth-read-" + f, wgt, func(w *world) stepResult { return authReadFail(w, f) }})
		out = append(out, stepDef{"auth-reply-" + f, wgt, func(w *world) stepResult { return authReplyFail(w, f) }})
	}
	return out
}
