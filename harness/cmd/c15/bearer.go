package main

// History steps on the dialing (bearer) side of the auth plug-in and their checker-side counterparts:
// the session ends, or the set-up phase is over, before SendOnce / RecvOnce is used. All orderings are
// arranged with channels (the bearer parks inside its function), never with the wall clock.
//
//   bearer-closed-inside        the bearer closes its own session, then calls SendOnce
//   bearer-closed-by-lookup     the bearer names the session (SetID); another goroutine finds it by that id and closes it
//   bearer-peer-close           ... another goroutine closes the whole client peer
//   bearer-id-takeover          ... an established session of the same peer takes the id (the older one is closed)
//   bearer-server-cut-eof/reset the server closes / resets the connection before SendOnce
//   bearer-sendonce-late        the bearer keeps SendOnce and the session; both are used after Dial returned
//   bearer-sendonce-after-close SendOnce on the closed session, then once more (second use)
//   checker-closed-inside       the checker closes its session, then calls RecvOnce
//   checker-recvonce-late       the checker keeps RecvOnce; it is used after the accept phase

import (
	"fmt"
	"net"
	"sync"
	"sync/atomic"

	erpc "github.com/henrylee2cn/erpc/v6"
	"github.com/henrylee2cn/erpc/v6/plugin/auth"
	"github.com/henrylee2cn/erpc/v6/socket"

	"verifharness/memconn"
	"verifharness/pxy"
)

type bearerIO struct {
	plain   *pxy.TCPServer // a server peer without any auth checker
	cutLis  net.Listener   // accepts and ends the connection at once
	cutHow  chan bool      // true: reset
	cutDone chan struct{}
}

var bio *bearerIO
var bearerSeq int64

func getBearerIO() *bearerIO {
	if bio != nil {
		return bio
	}
	b := &bearerIO{cutHow: make(chan bool, 4), cutDone: make(chan struct{}, 4)}
	srv := erpc.NewPeer(erpc.PeerConfig{})
	srv.SubRoute("/a").RouteCallFunc(pxy.Tbytes)
	b.plain, _ = pxy.NewTCPServer(srv, raw)
	if lis, err := net.Listen("tcp", "127.0.0.1:0"); err == nil {
		b.cutLis = lis
		go func() {
			for {
				c, err := lis.Accept()
				if err != nil {
					return
				}
				reset := <-b.cutHow // the harness says when (the bearer is parked by then) and how
				if tc, ok := c.(*net.TCPConn); ok && reset {
					tc.SetLinger(0)
				}
				c.Close()
				b.cutDone <- struct{}{}
			}
		}()
	}
	bio = b
	return b
}

type closer interface{ Close() error }

// parkedBearer builds a client peer whose bearer signals `in`, waits for `goOn`, then calls SendOnce.
func parkedBearer(name string, before func(sess auth.Session), in chan<- struct{}, goOn <-chan struct{}, sent *atomic.Value) erpc.Peer {
	return erpc.NewPeer(erpc.PeerConfig{}, auth.NewBearerPlugin(func(sess auth.Session, fn auth.SendOnce) *erpc.Status {
		if name != "" {
			sess.SetID(name)
		}
		if before != nil {
			before(sess)
		}
		if in != nil {
			in <- struct{}{}
			<-goOn
		}
		var ret string
		st := fn("token", &ret)
		sent.Store(st.String())
		return st
	}, erpc.WithBodyCodec('s')))
}

func bearerStep(w *world, flavour string) stepResult {
	b := getBearerIO()
	if b.plain == nil || b.cutLis == nil {
		return eff(false, "no listener")
	}
	name := fmt.Sprintf("bearer-%d", atomic.AddInt64(&bearerSeq, 1))
	in, goOn := make(chan struct{}, 1), make(chan struct{})
	var sent atomic.Value
	addr := b.plain.Addr()
	var cli erpc.Peer
	switch flavour {
	case "closed-inside":
		cli = parkedBearer("", func(sess auth.Session) {
			if c, ok := sess.(closer); ok {
				c.Close()
			}
		}, nil, nil, &sent)
	case "server-cut-eof", "server-cut-reset":
		addr = b.cutLis.Addr().String()
		cli = parkedBearer("", nil, in, goOn, &sent)
	default:
		cli = parkedBearer(name, nil, in, goOn, &sent)
	}
	done := make(chan struct{})
	var st *erpc.Status
	var sess erpc.Session
	go func() {
		defer close(done)
		sess, st = cli.Dial(addr, raw)
	}()
	release := sync.Once{}
	free := func() { release.Do(func() { close(goOn) }) }
	defer free()
	note := flavour
	if flavour != "closed-inside" {
		inCh := make(chan struct{})
		early := false
		go func() {
			select {
			case <-in:
			case <-done: // the dial ended before the bearer was entered
				early = true
			}
			close(inCh)
		}()
		if why := pxy.Await(inCh, watchdog); why != "" {
			return stepResult{note: "bearer not reached: " + why, async: true}
		}
		if early {
			if flavour == "server-cut-eof" || flavour == "server-cut-reset" {
				b.cutHow <- false
				<-b.cutDone
			}
			return stepResult{note: note + ": the dial ended before the bearer ran: " + st.String(), async: true}
		}
		switch flavour {
		case "closed-by-lookup":
			s, ok := cli.GetSession(name)
			if !ok {
				free()
				return stepResult{note: "named session not in the index", async: true}
			}
			s.Close()
		case "peer-close":
			cli.Close()
		case "server-cut-eof", "server-cut-reset":
			b.cutHow <- flavour == "server-cut-reset"
			dc := make(chan struct{})
			go func() { <-b.cutDone; close(dc) }()
			if why := pxy.Await(dc, watchdog); why != "" {
				free()
				return stepResult{note: "server did not cut: " + why, async: true}
			}
		}
		free()
	}
	if why := pxy.Await(done, watchdog); why != "" {
		return stepResult{note: note + ": dial did not return: " + why, async: true}
	}
	if st.OK() {
		go sess.Close()
		return stepResult{note: note + ": dial succeeded", async: true}
	}
	if flavour != "peer-close" {
		go cli.Close()
	}
	s, _ := sent.Load().(string)
	return stepResult{effective: true, async: true, note: note + " -> SendOnce: " + s + " ; Dial: " + st.String()}
}

// bearerTakeover: the parked bearer's session loses its id to an established session of the same peer.
func bearerTakeover(w *world) stepResult {
	b := getBearerIO()
	if b.plain == nil {
		return eff(false, "no listener")
	}
	name := fmt.Sprintf("bearer-%d", atomic.AddInt64(&bearerSeq, 1))
	in, goOn := make(chan struct{}, 1), make(chan struct{})
	var sent atomic.Value
	var first int32
	// the first dial of this peer passes without naming or parking; the second one is the subject
	cli := erpc.NewPeer(erpc.PeerConfig{}, auth.NewBearerPlugin(func(sess auth.Session, fn auth.SendOnce) *erpc.Status {
		if atomic.AddInt32(&first, 1) == 1 {
			return nil
		}
		sess.SetID(name)
		in <- struct{}{}
		<-goOn
		var ret string
		st := fn("token", &ret)
		sent.Store(st.String())
		return st
	}, erpc.WithBodyCodec('s')))
	defer func() { go cli.Close() }()
	est, st0 := cli.Dial(b.plain.Addr(), raw)
	if !st0.OK() {
		return eff(false, "first dial: "+st0.String())
	}
	done := make(chan struct{})
	var st *erpc.Status
	var sess erpc.Session
	go func() {
		defer close(done)
		sess, st = cli.Dial(b.plain.Addr(), raw)
	}()
	inCh := make(chan struct{})
	go func() { <-in; close(inCh) }()
	if why := pxy.Await(inCh, watchdog); why != "" {
		close(goOn)
		return stepResult{note: "bearer not reached: " + why, async: true}
	}
	tk := make(chan struct{})
	go func() { est.SetID(name); close(tk) }() // closes the session that held the id
	why := pxy.Await(tk, watchdog)
	close(goOn)
	if why != "" {
		return stepResult{note: "takeover did not complete: " + why, async: true}
	}
	if why := pxy.Await(done, watchdog); why != "" {
		return stepResult{note: "dial did not return: " + why, async: true}
	}
	if st.OK() {
		go sess.Close()
		return stepResult{note: "dial succeeded", async: true}
	}
	s, _ := sent.Load().(string)
	return stepResult{effective: true, async: true, note: "id-takeover -> SendOnce: " + s + " ; Dial: " + st.String()}
}

// bearerLate: SendOnce (and the session) are kept and used after Dial returned, or after the session was closed.
func bearerLate(w *world, afterClose bool) stepResult {
	b := getBearerIO()
	if b.plain == nil {
		return eff(false, "no listener")
	}
	var kept auth.SendOnce
	var keptSess auth.Session
	cli := erpc.NewPeer(erpc.PeerConfig{}, auth.NewBearerPlugin(func(sess auth.Session, fn auth.SendOnce) *erpc.Status {
		kept, keptSess = fn, sess
		if afterClose {
			if c, ok := sess.(closer); ok {
				c.Close()
			}
			var ret string
			return fn("token", &ret)
		}
		return nil
	}, erpc.WithBodyCodec('s')))
	defer func() { go cli.Close() }()
	sess, st := cli.Dial(b.plain.Addr(), raw)
	if afterClose {
		if st.OK() {
			go sess.Close()
			return eff(false, "dial succeeded")
		}
		var ret string
		st2 := kept("token", &ret) // second use
		return stepResult{effective: !st2.OK(), async: true, note: fmt.Sprintf("Dial: %s ; second SendOnce: %s", st.String(), st2.String())}
	}
	if !st.OK() || kept == nil {
		return eff(false, "dial: "+st.String())
	}
	var ret string
	st1 := kept("token", &ret)
	// the kept pre-session handle outside the set-up phase
	var extra string
	if ps, ok := keptSess.(erpc.PreSession); ok {
		extra = ps.PreSend(erpc.TypeAuthCall, "", "x", nil).String()
		m := ps.PreReceive(func(erpc.Header) interface{} { return nil })
		extra += " / " + m.Status().String()
		socket.PutMessage(m)
	}
	st2 := kept("token", &ret)
	go sess.Close()
	return stepResult{effective: st1.Code() == erpc.CodeInvalidOp && !st2.OK(), async: true,
		note: fmt.Sprintf("late SendOnce: %s ; PreSend / PreReceive on the kept session: %s ; second SendOnce: %s", st1.String(), extra, st2.String())}
}

// checkerStep: the checker side. late=false: the checker closes its session, then calls RecvOnce;
// late=true: RecvOnce is kept and used after the accept phase (and once more).
func checkerStep(w *world, late bool) stepResult {
	var kept auth.RecvOnce
	var inside atomic.Value
	srv := erpc.NewPeer(erpc.PeerConfig{}, auth.NewCheckerPlugin(func(sess auth.Session, fn auth.RecvOnce) (interface{}, *erpc.Status) {
		kept = fn
		if late {
			return "welcome", nil
		}
		if c, ok := sess.(closer); ok {
			c.Close()
		}
		var info string
		st := fn(&info)
		inside.Store(st.String())
		return nil, st
	}, erpc.WithBodyCodec('s')))
	defer func() { go srv.Close() }()
	ca, cb := memconn.NewPair()
	defer ca.Close()
	defer cb.Close()
	done := make(chan struct{})
	var st *erpc.Status
	go func() {
		defer close(done)
		_, st = srv.ServeConn(cb, raw)
	}()
	if why := pxy.Await(done, watchdog); why != "" {
		return stepResult{note: "ServeConn did not return: " + why, async: true}
	}
	if !late {
		s, _ := inside.Load().(string)
		return stepResult{effective: !st.OK(), async: true, note: "RecvOnce on the closed session: " + s + " ; ServeConn: " + st.String()}
	}
	if !st.OK() || kept == nil {
		return stepResult{note: "ServeConn: " + st.String(), async: true}
	}
	var info string
	st1 := kept(&info)
	st2 := kept(&info)
	return stepResult{effective: st1.Code() == erpc.CodeInvalidOp && !st2.OK(), async: true,
		note: fmt.Sprintf("late RecvOnce: %s ; second RecvOnce: %s", st1.String(), st2.String())}
}

func bearerSteps() []stepDef {
	out := []stepDef{
		{"bearer-id-takeover", 2, bearerTakeover},
		{"bearer-sendonce-late", 2, func(w *world) stepResult { return bearerLate(w, false) }},
		{"bearer-sendonce-after-close", 2, func(w *world) stepResult { return bearerLate(w, true) }},
		{"checker-closed-inside", 2, func(w *world) stepResult { return checkerStep(w, false) }},
		{"checker-recvonce-late", 2, func(w *world) stepResult { return checkerStep(w, true) }},
	}
	for _, f := range []string{"closed-inside", "closed-by-lookup", "peer-close", "server-cut-eof", "server-cut-reset"} {
		f := f
		out = append(out, stepDef{"bearer-" + f, 2, func(w *world) stepResult { return bearerStep(w, f) }})
	}
	return out
}
