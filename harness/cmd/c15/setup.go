package main

// History steps "session closed between its set-up hooks returning OK and the end of the set-up", on
// the three paths that establish a session (Peer.Dial, Peer.ServeConn, the listener's accept):
//
//   close-self   the PostDial / PostAccept hook closes its own session and returns OK
//   id-takeover  the hook names the session (SetID) and parks; an established session of the same peer
//                takes that id (the parked one is closed); the hook returns OK
//   peer-close   the hook names the session and parks; Peer.Close runs; the hook returns OK
//
// Orderings are arranged with channels (the hook parks), never with the wall clock.

import (
	"fmt"
	"io"
	"net"
	"os"
	"sync/atomic"
	"time"

	erpc "github.com/henrylee2cn/erpc/v6"

	"verifharness/memconn"
	"verifharness/pxy"
)

var setupSeq int64

// setupHook is a PostDial / PostAccept plug-in acting on the (skip+1)-th session of its peer.
type setupHook struct {
	flavour string
	name    string
	skip    int32
	seen    int32
	in      chan struct{}
	goOn    chan struct{}
	lisAddr chan net.Addr
}

func (h *setupHook) Name() string { return "harness-setup-hook" }

func (h *setupHook) act(sess erpc.PreSession) *erpc.Status {
	if atomic.AddInt32(&h.seen, 1) != h.skip+1 {
		return nil
	}
	switch h.flavour {
	case "close-self":
		if c, ok := sess.(closer); ok {
			c.Close()
		}
	default:
		sess.SetID(h.name)
		h.in <- struct{}{}
		<-h.goOn
	}
	return nil
}

func (h *setupHook) PostDial(sess erpc.PreSession, isRedial bool) *erpc.Status { return h.act(sess) }
func (h *setupHook) PostAccept(sess erpc.PreSession) *erpc.Status              { return h.act(sess) }
func (h *setupHook) PostListen(a net.Addr) error {
	select {
	case h.lisAddr <- a:
	default:
	}
	return nil
}

func newSetupHook(flavour string) *setupHook {
	h := &setupHook{flavour: flavour, name: fmt.Sprintf("setup-%d", atomic.AddInt64(&setupSeq, 1)),
		in: make(chan struct{}, 1), goOn: make(chan struct{}), lisAddr: make(chan net.Addr, 1)}
	if flavour == "id-takeover" {
		h.skip = 1 // the first session of the peer gets established and later takes the id
	}
	return h
}

func awaitChan(c <-chan struct{}, alt <-chan struct{}) (string, bool) {
	m := make(chan struct{})
	early := false
	go func() {
		select {
		case <-c:
		case <-alt:
			early = true
		}
		close(m)
	}()
	why := pxy.Await(m, watchdog)
	return why, early
}

// interfere does what the flavour asks for while the hook is parked, then lets the hook return OK.
func interfere(h *setupHook, peer erpc.Peer, est erpc.Session) string {
	defer close(h.goOn)
	switch h.flavour {
	case "id-takeover":
		if est == nil {
			return "no established session to take the id"
		}
		d := make(chan struct{})
		go func() { est.SetID(h.name); close(d) }()
		return pxy.Await(d, watchdog)
	case "peer-close":
		d := make(chan struct{})
		go func() { peer.Close(); close(d) }()
		return pxy.Await(d, watchdog)
	}
	return ""
}

func setupDial(w *world, flavour string) stepResult {
	b := getBearerIO()
	if b.plain == nil {
		return eff(false, "no listener")
	}
	h := newSetupHook(flavour)
	cli := erpc.NewPeer(erpc.PeerConfig{}, h)
	if flavour != "peer-close" {
		defer func() { go cli.Close() }()
	}
	var est erpc.Session
	if h.skip > 0 {
		var st0 *erpc.Status
		if est, st0 = cli.Dial(b.plain.Addr(), raw); !st0.OK() {
			return eff(false, "first dial: "+st0.String())
		}
	}
	done := make(chan struct{})
	var st *erpc.Status
	var sess erpc.Session
	go func() {
		defer close(done)
		sess, st = cli.Dial(b.plain.Addr(), raw)
	}()
	if flavour != "close-self" {
		why, early := awaitChan(h.in, done)
		if why != "" || early {
			close(h.goOn)
			return stepResult{note: "hook not reached: " + why, async: true}
		}
		if why := interfere(h, cli, est); why != "" {
			return stepResult{note: "interference did not complete: " + why, async: true}
		}
	}
	if why := pxy.Await(done, watchdog); why != "" {
		return stepResult{note: "dial did not return: " + why, async: true}
	}
	if st.OK() {
		go sess.Close()
		return stepResult{note: "dial succeeded", async: true}
	}
	return stepResult{effective: st.Code() == erpc.CodeConnClosed, async: true, note: "Dial: " + st.String()}
}

func setupServeConn(w *world, flavour string) stepResult {
	h := newSetupHook(flavour)
	srv := erpc.NewPeer(erpc.PeerConfig{}, h)
	if flavour != "peer-close" {
		defer func() { go srv.Close() }()
	}
	var est erpc.Session
	if h.skip > 0 {
		ca0, cb0 := memconn.NewPair()
		defer ca0.Close()
		var st0 *erpc.Status
		if est, st0 = srv.ServeConn(cb0, raw); !st0.OK() {
			return eff(false, "first ServeConn: "+st0.String())
		}
	}
	ca, cb := memconn.NewPair()
	defer ca.Close()
	defer cb.Close()
	done := make(chan struct{})
	var st *erpc.Status
	var sess erpc.Session
	go func() {
		defer close(done)
		sess, st = srv.ServeConn(cb, raw)
	}()
	if flavour != "close-self" {
		why, early := awaitChan(h.in, done)
		if why != "" || early {
			close(h.goOn)
			return stepResult{note: "hook not reached: " + why, async: true}
		}
		if why := interfere(h, srv, est); why != "" {
			return stepResult{note: "interference did not complete: " + why, async: true}
		}
	}
	if why := pxy.Await(done, watchdog); why != "" {
		return stepResult{note: "ServeConn did not return: " + why, async: true}
	}
	if st.OK() {
		go sess.Close()
		return stepResult{note: "ServeConn succeeded", async: true}
	}
	return stepResult{effective: st.Code() == erpc.CodeConnClosed, async: true, note: "ServeConn: " + st.String()}
}

func setupListener(w *world, flavour string) stepResult {
	h := newSetupHook(flavour)
	// a concrete port of this process's own range: with ListenPort 0 every listening peer of the process has the listen
	// address "127.0.0.1:0", under which the framework's inherited-listener table hands a second, overlapping listener the
	// first one's entry - ListenAndServe then ends the process (Fatalf) while the previous step's peer is still closing
	srv := erpc.NewPeer(erpc.PeerConfig{LocalIP: "127.0.0.1", ListenPort: pickPort()}, h)
	if flavour != "peer-close" {
		defer func() { go srv.Close() }()
	}
	go srv.ListenAndServe(raw)
	la := make(chan struct{})
	var addr net.Addr
	go func() { addr = <-h.lisAddr; close(la) }()
	if why := pxy.Await(la, watchdog); why != "" {
		return stepResult{note: "listener did not come up: " + why, async: true}
	}
	var est erpc.Session
	if h.skip > 0 {
		c0, err := net.Dial("tcp", addr.String())
		if err != nil {
			return eff(false, "first connection: "+err.Error())
		}
		defer c0.Close()
		if !pxy.WaitCount(func() bool { return srv.CountSession() >= 1 }, watchdog) {
			return stepResult{note: "first session not established", async: true}
		}
		srv.RangeSession(func(s erpc.Session) bool { est = s; return false })
	}
	c, err := net.Dial("tcp", addr.String())
	if err != nil {
		return eff(false, "connection: "+err.Error())
	}
	defer c.Close()
	if flavour != "close-self" {
		why, _ := awaitChan(h.in, nil)
		if why != "" {
			close(h.goOn)
			return stepResult{note: "hook not reached: " + why, async: true}
		}
		if why := interfere(h, srv, est); why != "" {
			return stepResult{note: "interference did not complete: " + why, async: true}
		}
	}
	// the accept path reports nothing: the far end sees the connection go away
	gone := make(chan struct{})
	var rerr error
	go func() {
		defer close(gone)
		c.SetReadDeadline(time.Now().Add(20 * time.Second))
		_, rerr = c.Read(make([]byte, 16))
	}()
	if why := pxy.Await(gone, watchdog); why != "" {
		return stepResult{note: "the connection was not closed by the server: " + why, async: true}
	}
	return stepResult{effective: rerr == io.EOF || rerr != nil, async: true, note: fmt.Sprintf("client read: %v", rerr)}
}

func setupSteps() []stepDef {
	var out []stepDef
	for _, f := range []string{"close-self", "id-takeover", "peer-close"} {
		f := f
		out = append(out,
			stepDef{"setup-closed:dial+" + f, 2, func(w *world) stepResult { return setupDial(w, f) }},
			stepDef{"setup-closed:serveconn+" + f, 2, func(w *world) stepResult { return setupServeConn(w, f) }},
			stepDef{"setup-closed:listener+" + f, 1, func(w *world) stepResult { return setupListener(w, f) }})
	}
	return out
}

var portSeq int32

// pickPort returns a free loopback port from a range derived from the process id (batches run in parallel).
func pickPort() uint16 {
	base := 30000 + (os.Getpid()%500)*40
	for i := 0; i < 40; i++ {
		p := base + int(atomic.AddInt32(&portSeq, 1))%40
		l, err := net.Listen("tcp", fmt.Sprintf("127.0.0.1:%d", p))
		if err == nil {
			l.Close()
			return uint16(p)
		}
	}
	return 0
}
