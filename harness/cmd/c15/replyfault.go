package main

// History steps "error reply whose write stage fails": a CALL that already carries an error status
// (unknown route, undecodable body, empty service method, plug-in veto at each pre-handler stage,
// handler returning a fresh / a shared exported status, handler panic) combined with a fault in the
// reply stage (PreWriteReply plug-in panicking with a string / an error / a *Status, PreWriteReply
// returning non-OK, PostWriteReply panicking, a panic inside the write itself - a transfer filter
// panicking in Pack), on several wire protocols.

import (
	"errors"
	"fmt"
	"sync/atomic"

	erpc "github.com/henrylee2cn/erpc/v6"
	"github.com/henrylee2cn/erpc/v6/plugin/auth"
	"github.com/henrylee2cn/erpc/v6/xfer"

	"verifharness/bed"
	"verifharness/protos"
	"verifharness/pxy"
)

// fault modes (process-wide, set around one call; the fault servers are only used by these steps)
const (
	fNone int32 = iota
	fPrePanicString
	fPrePanicError
	fPrePanicStatus
	fPreReturnsError
	fPostPanic
	fPackPanic
)

var faultNames = map[int32]string{fPrePanicString: "pre-panic-string", fPrePanicError: "pre-panic-error", fPrePanicStatus: "pre-panic-status",
	fPreReturnsError: "pre-returns-error", fPostPanic: "post-panic", fPackPanic: "pack-panic"}

var (
	faultMode  int32 // armed fault for the next reply
	faultFired int64
	vetoStage  int32 // 0 none, 1 PostReadCallHeader, 2 PreReadCallBody, 3 PostReadCallBody
	vetoCode   int32
	packArmed  int32
)

const panicFilterID = 'P'

// panicFilter is an identity transfer filter that panics in OnPack once when armed.
type panicFilter struct{}

func (panicFilter) ID() byte     { return panicFilterID }
func (panicFilter) Name() string { return "harness-panic-on-pack" }
func (panicFilter) OnPack(b []byte) ([]byte, error) {
	if atomic.CompareAndSwapInt32(&packArmed, 1, 0) {
		atomic.AddInt64(&faultFired, 1)
		panic("harness: transfer filter failure while packing the reply")
	}
	return b, nil
}
func (panicFilter) OnUnpack(b []byte) ([]byte, error) { return b, nil }

// faultPlugin fails in the reply stage as armed, and vetoes at the armed pre-handler stage.
type faultPlugin struct{}

func (faultPlugin) Name() string { return "harness-reply-fault" }

func take(mode ...int32) int32 {
	for _, m := range mode {
		if atomic.CompareAndSwapInt32(&faultMode, m, fNone) {
			atomic.AddInt64(&faultFired, 1)
			return m
		}
	}
	return fNone
}

func (faultPlugin) PreWriteReply(ctx erpc.WriteCtx) *erpc.Status {
	switch take(fPrePanicString, fPrePanicError, fPrePanicStatus, fPreReturnsError) {
	case fPrePanicString:
		panic("harness: write-stage plug-in failure (string)")
	case fPrePanicError:
		panic(errors.New("harness: write-stage plug-in failure (error)"))
	case fPrePanicStatus:
		panic(erpc.NewStatus(5099, "harness: write-stage plug-in failure", "status value"))
	case fPreReturnsError:
		return erpc.NewStatus(5098, "harness: PreWriteReply refuses", "non-OK return")
	}
	if atomic.CompareAndSwapInt32(&faultMode, fPackPanic, fNone) {
		atomic.StoreInt32(&packArmed, 1) // the write that follows panics inside Pack
	}
	return nil
}

func (faultPlugin) PostWriteReply(ctx erpc.WriteCtx) *erpc.Status {
	if take(fPostPanic) == fPostPanic {
		panic("harness: PostWriteReply plug-in failure")
	}
	return nil
}

func veto(stage int32) *erpc.Status {
	if atomic.CompareAndSwapInt32(&vetoStage, stage, 0) {
		c := atomic.LoadInt32(&vetoCode)
		return erpc.NewStatus(c, "vetoed by plug-in", fmt.Sprintf("stage %d", stage))
	}
	return nil
}

func (faultPlugin) PostReadCallHeader(ctx erpc.ReadCtx) *erpc.Status { return veto(1) }
func (faultPlugin) PreReadCallBody(ctx erpc.ReadCtx) *erpc.Status    { return veto(2) }
func (faultPlugin) PostReadCallBody(ctx erpc.ReadCtx) *erpc.Status   { return veto(3) }

// SharedStat is a handler that returns an exported package-level status by pointer.
func SharedStat(ctx erpc.CallCtx, arg *[]byte) ([]byte, *erpc.Status) { return nil, auth.MultiSendErr }

var faultProtos = []string{"raw", "json", "pb", "thrift-binary"}

type faultFixture struct {
	srv    map[string]erpc.Peer
	links  map[string]*bed.Link
	shared string
}

var ff *faultFixture

func getFaultFixture() *faultFixture {
	if ff != nil {
		return ff
	}
	xfer.Reg(panicFilter{})
	ff = &faultFixture{srv: map[string]erpc.Peer{}, links: map[string]*bed.Link{}}
	for _, p := range faultProtos {
		s := erpc.NewPeer(erpc.PeerConfig{}, faultPlugin{})
		g := s.SubRoute("/a")
		g.RouteCallFunc(pxy.Tbytes)
		g.RouteCallFunc(pxy.Tjson)
		ff.shared = g.RouteCallFunc(SharedStat)
		ff.srv[p] = s
	}
	return ff
}

func (f *faultFixture) link(w *world, proto string) *bed.Link {
	if l := f.links[proto]; healthy(l) {
		return l
	}
	drop(f.links[proto])
	pf := protos.ByName(proto).Func
	l, err := bed.Connect(w.caller, f.srv[proto], pf, pf, nil)
	if err != nil {
		return nil
	}
	f.links[proto] = l
	return l
}

var faultSources = []string{"notfound", "badbody", "emptymethod", "veto-header", "veto-header-405", "veto-prebody", "veto-postbody",
	"handler-status", "handler-shared-status", "handler-panic"}

// replyFault runs one error call of the given source with the given reply-stage fault armed.
func replyFault(w *world, source string, fault int32) stepResult {
	f := getFaultFixture()
	proto := faultProtos[w.r.Intn(len(faultProtos))]
	l := f.link(w, proto)
	if l == nil {
		return eff(false, "no link ("+proto+")")
	}
	var (
		method             = "/a/tbytes"
		arg    interface{} = []byte("x")
		st     []erpc.MessageSetting
		want   int32
		pl     *pxy.Plan
	)
	atomic.StoreInt32(&vetoStage, 0)
	switch source {
	case "notfound":
		method, want = "/no/such/route", 404
	case "badbody":
		method, arg, want = "/a/tjson", []byte("{not json"), 400
		st = append(st, erpc.WithBodyCodec('j'))
	case "emptymethod":
		method, want = "", 400
	case "veto-header", "veto-header-405", "veto-prebody", "veto-postbody":
		want = 4035
		if source == "veto-header-405" {
			want = 405
		}
		atomic.StoreInt32(&vetoCode, want)
		stage := map[string]int32{"veto-header": 1, "veto-header-405": 1, "veto-prebody": 2, "veto-postbody": 3}[source]
		atomic.StoreInt32(&vetoStage, stage)
	case "handler-status":
		pl = w.plan()
		defer pl.Drop()
		pl.Stat = &protos.Triple{Code: 1001, Msg: "handler failure", Cause: "from handler"}
		st, want = append(st, pid(pl)), 1001
	case "handler-shared-status":
		method, want = f.shared, auth.MultiSendErr.Code()
	case "handler-panic":
		pl = w.plan()
		defer pl.Drop()
		pl.Panic = true
		st, want = append(st, pid(pl)), 500
	}
	if fault == fPackPanic {
		st = append(st, erpc.WithXferPipe(panicFilterID))
	}
	fired0 := atomic.LoadInt64(&faultFired)
	atomic.StoreInt32(&packArmed, 0)
	atomic.StoreInt32(&faultMode, fault)
	t, stuck := call(l.A, method, arg, nil, st...)
	if fault == fPostPanic && source != "handler-panic" && stuck == "" {
		// PostWriteReply runs after the caller has its answer
		pxy.WaitCount(func() bool { return atomic.LoadInt64(&faultFired) > fired0 }, watchdog)
	}
	atomic.StoreInt32(&faultMode, fNone)
	atomic.StoreInt32(&packArmed, 0)
	atomic.StoreInt32(&vetoStage, 0)
	fired := atomic.LoadInt64(&faultFired) - fired0
	note := fmt.Sprintf("%s: %s + %s -> %+v (source code %d) fault fired %d %s", proto, source, faultNames[fault], t, want, fired, stuck)
	if stuck != "" {
		// the connection may be wedged: use a fresh one next time
		drop(l)
		delete(f.links, proto)
		return stepResult{note: note, async: true}
	}
	// a handler panic answers from the recover path, which does not run the write-stage hooks
	return stepResult{effective: t.Code != 0 && (fired > 0 || source == "handler-panic"), async: true, note: note}
}

func replyFaultSteps() []stepDef {
	var out []stepDef
	for _, src := range faultSources {
		for _, fl := range []int32{fPrePanicString, fPrePanicError, fPrePanicStatus, fPreReturnsError, fPostPanic, fPackPanic} {
			src, fl := src, fl
			out = append(out, stepDef{"reply-fault:" + src + "+" + faultNames[fl], 1, func(w *world) stepResult { return replyFault(w, src, fl) }})
		}
	}
	return out
}
