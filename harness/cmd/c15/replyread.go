package main

// History steps "the read of a REPLY fails (or nearly fails) on the calling side": a real calling
// session talks to a scripted far end (harness code that reads the CALL with the protocol's own
// Unpack and answers with bytes it controls), over all six stream protocols. The flavours cover
// every way the reading loop can leave a reply: read completely; bound to its pending call and then
// unreadable while the body codec is unknown (raw / json / pb / thrift-binary: body codec 0 with a
// non-empty body, with and without an error status; http: a 299 response that is no status document
// without / with an unknown content type, an empty 299 response, a 200 response with a body and no
// content type; thrift-struct: the struct cut by the end of the connection or malformed inside an
// intact frame); bound and unreadable with a known codec (unregistered codec id, undecodable
// document); unreadable before it is bound (payload refused by a transfer filter, frame cut by EOF /
// reset, unsupported http status line, header line without a colon); replies nobody waits for
// (unknown sequence number, a second reply to a completed call); replies vetoed by a plug-in of the
// caller at each of the three reply stages, with a fresh status or an exported package-level status
// returned by pointer. The calling session is served over an in-memory connection or (one time in
// four) dialled over loopback TCP by a peer that redials once.

import (
	"bytes"
	"fmt"
	"net"
	"strconv"
	"sync/atomic"
	"time"

	"git.apache.org/thrift.git/lib/go/thrift"
	erpc "github.com/henrylee2cn/erpc/v6"
	"github.com/henrylee2cn/erpc/v6/plugin/auth"

	"verifharness/core"
	"verifharness/memconn"
	"verifharness/protos"
	"verifharness/pxy"
	"verifharness/wire"
)

// rrTable is built before any traffic runs (building the http protocol function sets a process global).
var rrTable = func() map[string]protos.P {
	m := map[string]protos.P{}
	for _, p := range protos.All() {
		m[p.Name] = p
	}
	return m
}()

// ---------- plug-in of the calling peer: vetoes a reply at an armed stage ----------

var (
	rrStage  int32 // 0 none, 1 PostReadReplyHeader, 2 PreReadReplyBody, 3 PostReadReplyBody
	rrShared int32 // the veto is an exported package-level status returned by pointer
	rrFired  int64
)

type rrHook struct{}

func (rrHook) Name() string { return "harness-reply-hook" }

func rrVeto(stage int32) *erpc.Status {
	if !atomic.CompareAndSwapInt32(&rrStage, stage, 0) {
		return nil
	}
	atomic.AddInt64(&rrFired, 1)
	if atomic.LoadInt32(&rrShared) != 0 {
		return auth.MultiRecvErr
	}
	return erpc.NewStatus(4036, "vetoed by plug-in", fmt.Sprintf("reply stage %d", stage))
}

func (rrHook) PostReadReplyHeader(ctx erpc.ReadCtx) *erpc.Status { return rrVeto(1) }
func (rrHook) PreReadReplyBody(ctx erpc.ReadCtx) *erpc.Status    { return rrVeto(2) }
func (rrHook) PostReadReplyBody(ctx erpc.ReadCtx) *erpc.Status   { return rrVeto(3) }

// ---------- fixture ----------

type rrFixture struct {
	served erpc.Peer // sessions served over in-memory connections
	dialer erpc.Peer // sessions dialled over loopback TCP, one redial
	lis    net.Listener
	acc    chan net.Conn
}

var rrf *rrFixture

func getRR() *rrFixture {
	if rrf != nil {
		return rrf
	}
	f := &rrFixture{acc: make(chan net.Conn, 16)}
	f.served = erpc.NewPeer(erpc.PeerConfig{}, rrHook{})
	f.dialer = erpc.NewPeer(erpc.PeerConfig{RedialTimes: 1, RedialInterval: time.Millisecond}, rrHook{})
	if lis, err := net.Listen("tcp", "127.0.0.1:0"); err == nil {
		f.lis = lis
		go func() {
			for {
				c, err := lis.Accept()
				if err != nil {
					return
				}
				select {
				case f.acc <- c:
				default:
					c.Close()
				}
			}
		}()
	}
	rrf = f
	return f
}

func (f *rrFixture) drain() {
	for {
		select {
		case c := <-f.acc:
			c.Close()
		default:
			return
		}
	}
}

// open creates a calling session and returns the far end of its connection.
func (f *rrFixture) open(pf erpc.ProtoFunc, dial bool) (erpc.Session, net.Conn, string) {
	if !dial || f.lis == nil {
		ca, cb := memconn.NewPair()
		sess, st := f.served.ServeConn(ca, pf)
		if !st.OK() {
			ca.Close()
			cb.Close()
			return nil, nil, st.String()
		}
		return sess, cb, ""
	}
	f.drain()
	sess, st := f.dialer.Dial(f.lis.Addr().String(), pf)
	if !st.OK() {
		return nil, nil, st.String()
	}
	// the accepted connection of this session (a late redial of an earlier session may be accepted in between)
	deadline := time.After(5 * time.Second)
	for {
		select {
		case c := <-f.acc:
			if c.RemoteAddr().String() == sess.LocalAddr().String() {
				return sess, c, ""
			}
			c.Close()
		case <-deadline:
			go sess.Close()
			return nil, nil, "connection not accepted"
		}
	}
}

// cutConn ends a far end: EOF or reset for the reader on the other side.
func cutConn(c net.Conn, reset bool) {
	switch x := c.(type) {
	case *memconn.Conn:
		x.Sever(reset)
	case *net.TCPConn:
		if reset {
			x.SetLinger(0)
		}
		x.Close()
	default:
		c.Close()
	}
}

// ---------- the scripted replies ----------

// badStruct is a thrift struct whose encoding cannot be read back (far end only).
type badStruct struct{ kind string }

func (b *badStruct) Read(p thrift.TProtocol) error { return nil }
func (b *badStruct) Write(p thrift.TProtocol) error {
	p.WriteStructBegin("TStruct")
	p.WriteFieldBegin("a", thrift.I32, 1)
	p.WriteI32(7)
	p.WriteFieldEnd()
	switch b.kind {
	case "string": // a string announcing a negative length
		p.WriteFieldBegin("s", thrift.STRING, 3)
		p.WriteI32(-5)
	default: // a list announcing more elements than any frame holds
		p.WriteFieldBegin("l", thrift.LIST, 5)
		p.WriteByte(int8(thrift.I32))
		p.WriteI32(1 << 28)
	}
	return nil
}

const (
	rrStatCode  = 1001
	rrOKBody    = `{"tok":"R:t","pay":"p|t","n":2}`
	rrLongText  = "0123456789abcdefghijklmnopqrstuvwxyz"
	rrNoCodec   = "a body that names no codec"
	rrUnregCode = 0x7e
)

var rrStat = &protos.Triple{Code: rrStatCode, Msg: "remote failure", Cause: "from the far end"}

func packBytes(p protos.P, s wire.Spec, body interface{}) ([]byte, error) {
	m, err := wire.Build(s, p)
	if err != nil {
		return nil, err
	}
	if body != nil {
		m.SetBody(body)
	}
	var buf bytes.Buffer
	if err := p.Func(&buf).Pack(m); err != nil {
		return nil, err
	}
	return append([]byte(nil), buf.Bytes()...), nil
}

func httpResp(statusLine string, seq int32, ctype, body string, declared int, extraLine string) []byte {
	var b bytes.Buffer
	b.WriteString("HTTP/1.1 " + statusLine + "\r\n")
	b.WriteString("X-Seq: " + strconv.Itoa(int(seq)) + "\r\n")
	if extraLine != "" {
		b.WriteString(extraLine + "\r\n")
	}
	if ctype != "" {
		b.WriteString("Content-Type: " + ctype + "\r\n")
	}
	if declared < 0 {
		declared = len(body)
	}
	b.WriteString("Content-Length: " + strconv.Itoa(declared) + "\r\n\r\n")
	b.WriteString(body)
	return b.Bytes()
}

type rrScript struct {
	chunks [][]byte
	after  string // "", "eof", "reset"
}

// rrBuild produces what the far end sends for one flavour. k selects cut points.
func rrBuild(p protos.P, seq int32, method, flavour string, k int) (rrScript, error) {
	var sc rrScript
	one := func(b []byte, err error) (rrScript, error) {
		if err != nil {
			return sc, err
		}
		sc.chunks = append(sc.chunks, b)
		return sc, nil
	}
	base := flavour
	switch flavour {
	case "hook-header", "hook-prebody", "hook-postbody":
		base = "ok"
	}
	if p.HTTP {
		switch base {
		case "ok":
			return one(httpResp("200 OK", seq, "application/json", rrOKBody, -1, ""), nil)
		case "299-status-doc":
			return one(httpResp("299 Business Error", seq, "application/json", `{"code":1001,"msg":"remote failure","cause":"from the far end"}`, -1, ""), nil)
		case "299-garbage-noctype":
			return one(httpResp("299 Business Error", seq, "", []string{"x", "[", "<html>502 Bad Gateway</html>", "{\"code\":"}[k%4], -1, ""), nil)
		case "299-garbage-unknown-ctype":
			return one(httpResp("299 Business Error", seq, "application/x-harness-unknown", "upstream unavailable", -1, ""), nil)
		case "299-garbage-json-ctype":
			return one(httpResp("299 Business Error", seq, "application/json", "upstream unavailable", -1, ""), nil)
		case "299-empty":
			return one(httpResp("299 Business Error", seq, "", "", -1, ""), nil)
		case "200-body-noctype":
			return one(httpResp("200 OK", seq, "", rrOKBody, -1, ""), nil)
		case "200-undecodable":
			return one(httpResp("200 OK", seq, "application/json", "{not json", -1, ""), nil)
		case "5xx-status-line":
			return one(httpResp([]string{"500 Internal Server Error", "502 Bad Gateway", "404 Not Found"}[k%3], seq, "text/plain", "no", -1, ""), nil)
		case "bad-header-line":
			return one(httpResp("200 OK", seq, "application/json", rrOKBody, -1, "a header line without a colon"), nil)
		case "cut-eof", "cut-reset":
			sc.after = base[4:]
			return one(httpResp("200 OK", seq, "application/json", rrOKBody[:1+k%(len(rrOKBody)-1)], len(rrOKBody), ""), nil)
		}
		return sc, fmt.Errorf("no flavour %q for %s", flavour, p.Name)
	}
	spec := wire.Spec{Seq: seq, Mtype: erpc.TypeReply, Method: method, Codec: 'j', Body: []byte(rrOKBody)}
	if p.Struct {
		spec.Codec, spec.Body = 't', nil
		spec.TS = &wire.TStruct{A: 2, B: 3, S: rrLongText, D: []byte(rrLongText), L: []int32{1, 2, 3, 4, 5, 6, 7, 8}}
		switch base {
		case "ok":
			return one(packBytes(p, spec, nil))
		case "status-only":
			spec.Stat, spec.TS = rrStat, &wire.TStruct{}
			return one(packBytes(p, spec, nil))
		case "malformed-string", "malformed-list":
			return one(packBytes(p, spec, &badStruct{kind: base[len("malformed-"):]}))
		case "cut-struct-eof", "cut-struct-reset", "cut-head-eof":
			b, err := packBytes(p, spec, nil)
			if err != nil {
				return sc, err
			}
			n := len(b) - 1 - k%64 // the struct is the tail of the frame (more than 100 bytes)
			sc.after = "eof"
			if base == "cut-struct-reset" {
				sc.after = "reset"
			}
			if base == "cut-head-eof" {
				n = 5 + k%12 // inside the frame header
			}
			return one(b[:n], nil)
		}
		return sc, fmt.Errorf("no flavour %q for %s", flavour, p.Name)
	}
	switch base {
	case "ok":
	case "codec0-body":
		spec.Codec, spec.Body = 0, []byte(rrNoCodec)
	case "codec0-body+status":
		spec.Codec, spec.Body, spec.Stat = 0, []byte(rrNoCodec), rrStat
	case "codec-unregistered":
		spec.Codec = rrUnregCode
	case "undecodable":
		spec.Body = []byte("{not json")
	case "status-only":
		spec.Codec, spec.Body, spec.Stat = 0, nil, rrStat
	case "xfer-refused":
		spec.Pipe = []byte{wire.FMd5}
		b, err := packBytes(p, spec, nil)
		if err != nil {
			return sc, err
		}
		b[len(b)-1] ^= 0x55 // the check sum (or the payload it covers) no longer matches
		return one(b, nil)
	case "cut-eof", "cut-reset":
		b, err := packBytes(p, spec, nil)
		if err != nil {
			return sc, err
		}
		sc.after = base[4:]
		return one(b[:cutPoint(b, k)], nil)
	case "unknown-seq-first":
		other := spec
		other.Seq, other.Codec, other.Body = seq+1000, 0, []byte(rrNoCodec)
		b, err := packBytes(p, other, nil)
		if err != nil {
			return sc, err
		}
		sc.chunks = append(sc.chunks, b)
	case "duplicate-late":
		b, err := packBytes(p, spec, nil)
		if err != nil {
			return sc, err
		}
		sc.chunks = append(sc.chunks, b)
		spec.Codec, spec.Body = 0, []byte(rrNoCodec)
	default:
		return sc, fmt.Errorf("no flavour %q for %s", flavour, p.Name)
	}
	return one(packBytes(p, spec, nil))
}

// rrServe is the far end: it reads one CALL and answers as the flavour says.
func rrServe(p protos.P, far net.Conn, flavour string, k int) string {
	req := wire.NewReceiver(p)
	if err := p.Func(far).Unpack(req); err != nil {
		return "far end could not read the request: " + err.Error()
	}
	if req.Mtype() != erpc.TypeCall {
		return fmt.Sprintf("far end read a message of type %d", req.Mtype())
	}
	sc, err := rrBuild(p, req.Seq(), req.ServiceMethod(), flavour, k)
	if err != nil {
		return "far end could not build the reply: " + err.Error()
	}
	for _, b := range sc.chunks {
		if _, err := far.Write(b); err != nil {
			return "far end could not write: " + err.Error()
		}
	}
	switch sc.after {
	case "eof":
		cutConn(far, false)
	case "reset":
		cutConn(far, true)
	}
	return ""
}

// rrWant lists the codes a caller may see when the flavour had its intended effect (effectiveness only: the
// oracle never judges these values).
func rrWant(p protos.P, flavour string) []int32 {
	switch flavour {
	case "ok", "unknown-seq-first", "duplicate-late":
		return []int32{0}
	case "status-only", "codec0-body+status", "299-status-doc":
		return []int32{rrStatCode}
	case "cut-eof", "cut-reset":
		if p.HTTP {
			// the content type is known before the body: the reply is bound when it is handled
			return []int32{erpc.CodeConnClosed, erpc.CodeBadMessage}
		}
		return []int32{erpc.CodeConnClosed}
	case "cut-head-eof", "5xx-status-line", "bad-header-line":
		return []int32{erpc.CodeConnClosed}
	case "cut-struct-reset":
		// a reset surfaces while the frame is collected (before the reply is bound), an EOF ends the frame early
		return []int32{erpc.CodeConnClosed, erpc.CodeBadMessage}
	case "299-empty":
		// the pinned http protocol reads an empty 299 response as an empty status
		return []int32{0, erpc.CodeBadMessage}
	case "xfer-refused":
		return []int32{erpc.CodeConnClosed, erpc.CodeBadMessage} // bound only where the codec is known before the payload
	case "hook-header", "hook-prebody", "hook-postbody":
		return []int32{4036, auth.MultiRecvErr.Code()}
	}
	return []int32{erpc.CodeBadMessage}
}

// replyReadOnce runs one call against a scripted far end and returns what the caller observed.
func replyReadOnce(proto, flavour string, dial bool, k int, shared bool) (t protos.Triple, stuck string, note string, lingering bool) {
	f := getRR()
	p := rrTable[proto]
	sess, far, why := f.open(p.Func, dial)
	if why != "" {
		return t, "no session: " + why, "", false
	}
	var (
		arg, res interface{} = &pxy.Arg{Tok: "t", Pay: "p", N: 1}, &pxy.Arg{}
		st                   = []erpc.MessageSetting{erpc.WithBodyCodec('j')}
	)
	if p.Struct {
		arg, res, st = &wire.TStruct{A: 1, S: "x"}, &wire.TStruct{}, []erpc.MessageSetting{erpc.WithBodyCodec('t')}
	}
	atomic.StoreInt32(&rrShared, 0)
	if shared {
		atomic.StoreInt32(&rrShared, 1)
	}
	stage := map[string]int32{"hook-header": 1, "hook-prebody": 2, "hook-postbody": 3}[flavour]
	fired0 := atomic.LoadInt64(&rrFired)
	atomic.StoreInt32(&rrStage, stage)
	farDone := make(chan string, 1)
	go func() { farDone <- rrServe(p, far, flavour, k) }()
	cmd := sess.AsyncCall("/a/tjson", arg, res, make(chan erpc.CallCmd, 1), st...)
	stuck = pxy.Await(cmd.Done(), watchdog)
	atomic.StoreInt32(&rrStage, 0)
	atomic.StoreInt32(&rrShared, 0)
	if stuck == "" {
		hold(cmd.Status())
		t = protos.StatusTriple(cmd.Status())
	}
	// end of the exchange: the session is closed (a redialled one as well: Close waits for a redial in progress),
	// then the far end goes away
	closed, farEnded := make(chan struct{}), make(chan struct{})
	go func() { sess.Close(); close(closed) }()
	lingering = pxy.Await(closed, watchdog) != ""
	cutConn(far, false)
	var farNote string
	go func() { farNote = <-farDone; close(farEnded) }()
	if pxy.Await(farEnded, watchdog) != "" {
		lingering, note = true, "the far end did not finish"
	} else {
		note = farNote
	}
	if dial {
		f.drain()
	}
	if stage != 0 && atomic.LoadInt64(&rrFired) == fired0 && stuck == "" {
		note += " (the reply hook did not fire)"
		stuck = "hook not reached"
	}
	return t, stuck, note, lingering
}

func replyRead(w *world, proto, flavour string) stepResult {
	shared := false
	if proto == "" { // plug-in flavours: the protocol is drawn
		names := []string{"raw", "json", "pb", "thrift-binary", "http", "thrift-struct"}
		proto = names[w.r.Intn(len(names))]
		if len(flavour) > 7 && flavour[len(flavour)-7:] == "-shared" {
			flavour, shared = flavour[:len(flavour)-7], true
		}
	}
	dial := w.r.Intn(4) == 0
	k := w.r.Intn(1 << 16)
	t, stuck, note, lingering := replyReadOnce(proto, flavour, dial, k, shared)
	conn := "memconn"
	if dial {
		conn = "tcp-dial-redial1"
	}
	core.Add("reply_read_exchanges", 1)
	full := fmt.Sprintf("%s %s k=%d over %s -> %+v %s %s", proto, flavour, k, conn, t, stuck, note)
	if stuck != "" {
		return stepResult{note: full, async: true}
	}
	if lingering {
		full += " (activity left behind)"
	}
	ok := false
	for _, c := range rrWant(rrTable[proto], flavour) {
		ok = ok || c == t.Code
	}
	if ok && t.Code == erpc.CodeBadMessage {
		core.Add("reply_read_bad_message_seen_by_caller", 1)
	}
	return stepResult{effective: ok, async: lingering, note: full}
}

var (
	rrFramed        = []string{"raw", "json", "pb", "thrift-binary"}
	rrFramedFlavour = []string{"ok", "codec0-body", "codec0-body+status", "codec-unregistered", "undecodable", "status-only", "xfer-refused",
		"cut-eof", "cut-reset", "unknown-seq-first", "duplicate-late"}
	rrHTTPFlavour = []string{"ok", "299-status-doc", "299-garbage-noctype", "299-garbage-unknown-ctype", "299-garbage-json-ctype", "299-empty",
		"200-body-noctype", "200-undecodable", "5xx-status-line", "bad-header-line", "cut-eof", "cut-reset"}
	rrStructFlavour = []string{"ok", "status-only", "malformed-string", "malformed-list", "cut-struct-eof", "cut-struct-reset", "cut-head-eof"}
	rrHookFlavour   = []string{"hook-header", "hook-prebody", "hook-postbody", "hook-header-shared", "hook-prebody-shared", "hook-postbody-shared"}
)

func replyReadSteps() []stepDef {
	var out []stepDef
	add := func(proto, fl string) {
		class := "reply-read:" + fl
		if proto != "" {
			class = "reply-read:" + proto + "+" + fl
		}
		out = append(out, stepDef{class, 1, func(w *world) stepResult { return replyRead(w, proto, fl) }})
	}
	for _, p := range rrFramed {
		for _, fl := range rrFramedFlavour {
			add(p, fl)
		}
	}
	for _, fl := range rrHTTPFlavour {
		add("http", fl)
	}
	for _, fl := range rrStructFlavour {
		add("thrift-struct", fl)
	}
	for _, fl := range rrHookFlavour {
		add("", fl)
	}
	return out
}

// rrProbe is a fixed failure of this family: the caller-visible status must not depend on the history.
func rrProbe(proto, flavour string) probeObs {
	t, stuck, _, _ := replyReadOnce(proto, flavour, false, 0, false)
	return probeObs{Triple: t, Stuck: stuck, full: true}
}

// ---------- statuses handed to callers earlier ----------

type heldStatus struct {
	st     *erpc.Status
	was    protos.Triple
	origin string
}

const heldMax = 128

var (
	heldRing   []heldStatus
	heldNext   int
	curOp      = "process-start" // class of the operation that is running (step class or probe:<name>)
	predefined map[*erpc.Status]bool
)

func plainTriple(st *erpc.Status) protos.Triple {
	t := protos.Triple{Code: st.Code(), Msg: st.Msg()}
	if c := st.Cause(); c != nil {
		t.Cause = c.Error()
	}
	return t
}

// hold keeps a non-OK status a caller was handed, with the values it had at that moment. The predefined status
// objects themselves are handed out by design (connection closed, ...); they are watched by the sentinel monitor.
func hold(st *erpc.Status) {
	if st == nil || st.OK() {
		return
	}
	if predefined == nil {
		predefined = map[*erpc.Status]bool{}
		for _, s := range statusObjects() {
			predefined[s] = true
		}
	}
	if predefined[st] {
		core.Add("held_statuses_predefined_object", 1)
		return
	}
	h := heldStatus{st: st, was: plainTriple(st), origin: curOp}
	core.Add("held_statuses", 1)
	if len(heldRing) < heldMax {
		heldRing = append(heldRing, h)
		return
	}
	heldRing[heldNext] = h
	heldNext = (heldNext + 1) % heldMax
}

// heldCheck compares every status kept by hold with the values its caller saw.
func (m *monitor) heldCheck(hid string, desc interface{}, class string, stepIdx int, history []string) {
	core.Add("held_status_comparisons", int64(len(heldRing)))
	for i := range heldRing {
		h := &heldRing[i]
		now := plainTriple(h.st)
		if now == h.was {
			continue
		}
		key := "held:" + h.origin + "/" + class
		if !m.reported[key] {
			m.reported[key] = true
			fp := fmt.Sprintf("%s/held-status:%s/%s/%s-changed", *prop, h.origin, class, diffFields(h.was, now))
			emitViolation(hid, desc, fp,
				fmt.Sprintf("the status a caller was handed by a %q operation was %+v; after a later %q operation the same object reads %+v", h.origin, h.was, class, now),
				map[string]interface{}{"origin_class": h.origin, "before": h.was, "after": now, "operation_class": class, "step_index": stepIdx, "history_so_far": history})
		}
		h.was = now
	}
}
