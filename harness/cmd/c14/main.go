// Worker for C14, "completion" engine: the documented batch pattern of AsyncCall under the race detector.
//
// Batches of AsyncCalls share one completion channel ("every CallCmd is sent to the channel when the call is
// complete"); consumer goroutines take the commands from the channel and look at them AT ONCE (StatusOK / Status
// first, without waiting for Done; then the accessors that wait for Done). The calls are completed through every
// completion path of the framework, from whichever framework goroutine runs it:
//   - a reply (OK, error status, unknown route, undecodable body, vetoed by a reply plug-in at each of its three points),
//   - a refusal before the write (plug-in veto, unencodable argument, cancelled context, session already closed),
//   - the loss of the connection while they are pending (end of stream, reset, in the middle of a reply, the far
//     session closing, the caller's own Close() waiting for them, a redial-enabled client losing its server),
//
// with issuers that stop before the loss or keep issuing through it.
//
// The verdict of C14 is the race detector's: this worker runs in a -race build (props/C14.json, "also") and the
// driver judges the detector's log. The worker's own monitors use no locks on the path between the framework's
// completion and the consumer's first look, so that they add no happens-before edge there. It additionally reports
// (as its own case verdicts) what a consumer cannot see without a race: a command delivered as complete whose status
// later changed, or a call nobody answered delivered with an OK status.
package main

import (
	"context"
	"flag"
	"fmt"
	"net"
	"os"
	"runtime"
	"strings"
	"sync"
	"sync/atomic"
	"time"

	erpc "github.com/henrylee2cn/erpc/v6"
	"github.com/henrylee2cn/erpc/v6/codec"

	"verifharness/bed"
	"verifharness/core"
	"verifharness/memconn"
	"verifharness/protos"
	"verifharness/quiesce"
	"verifharness/wire"
)

var (
	prop   = flag.String("prop", "C14", "")
	tier   = flag.String("tier", "quick", "")
	seed   = flag.Int64("seed", 1, "")
	batch  = flag.Int("batch", 0, "")
	nbatch = flag.Int("nbatch", 1, "")
	replay = flag.String("replay", "", "")
)

// ---- the served side ----

type caseEnv struct{ release chan struct{} }

var cur atomic.Value // *caseEnv

func parkHere() {
	if e, _ := cur.Load().(*caseEnv); e != nil {
		<-e.release
	}
}

func answer(arg *string) (*string, *erpc.Status) {
	r := "R:" + *arg
	return &r, nil
}

// Echo answers at once.
func Echo(ctx erpc.CallCtx, arg *string) (*string, *erpc.Status) { return answer(arg) }

// Vh, Vb, Vp answer at once; the caller's reply plug-in refuses their replies at its three points.
func Vh(ctx erpc.CallCtx, arg *string) (*string, *erpc.Status) { return answer(arg) }
func Vb(ctx erpc.CallCtx, arg *string) (*string, *erpc.Status) { return answer(arg) }
func Vp(ctx erpc.CallCtx, arg *string) (*string, *erpc.Status) { return answer(arg) }

// Slow yields a few times before it answers.
func Slow(ctx erpc.CallCtx, arg *string) (*string, *erpc.Status) {
	for i := 0; i < 1+len(*arg)%5; i++ {
		runtime.Gosched()
	}
	return answer(arg)
}

// Fail answers with an error status.
func Fail(ctx erpc.CallCtx, arg *string) (*string, *erpc.Status) {
	return nil, erpc.NewStatus(1400, "refused by the handler", *arg)
}

// Park does not answer before the case releases it (after the connection is gone, where the case loses it).
func Park(ctx erpc.CallCtx, arg *string) (*string, *erpc.Status) {
	parkHere()
	return answer(arg)
}

type routeSet struct{ echo, vh, vb, vp, slow, fail, park, none string }

// routes holds the route names (the same for every peer); it is written once, before the first case runs.
var (
	routes     routeSet
	routesOnce sync.Once
)

func register(p erpc.Peer) {
	rs := routeSet{echo: p.RouteCallFunc(Echo), vh: p.RouteCallFunc(Vh), vb: p.RouteCallFunc(Vb), vp: p.RouteCallFunc(Vp),
		slow: p.RouteCallFunc(Slow), fail: p.RouteCallFunc(Fail), park: p.RouteCallFunc(Park), none: "/c14/nobody/serves/this"}
	routesOnce.Do(func() { routes = rs })
}

// veto is the caller's plug-in: it refuses a call before the write (metadata V=w) and the replies of three routes
// at the three reply points.
type veto struct{}

func (veto) Name() string { return "c14-veto" }
func (veto) PreWriteCall(ctx erpc.WriteCtx) *erpc.Status {
	if string(ctx.Output().Meta().Peek("V")) == "w" {
		return erpc.NewStatus(1401, "refused before the write", "")
	}
	return nil
}
func (veto) PostReadReplyHeader(ctx erpc.ReadCtx) *erpc.Status {
	if ctx.ServiceMethod() == routes.vh {
		return erpc.NewStatus(1402, "reply refused after its header", "")
	}
	return nil
}
func (veto) PreReadReplyBody(ctx erpc.ReadCtx) *erpc.Status {
	if ctx.ServiceMethod() == routes.vb {
		return erpc.NewStatus(1403, "reply refused before its body", "")
	}
	return nil
}
func (veto) PostReadReplyBody(ctx erpc.ReadCtx) *erpc.Status {
	if ctx.ServiceMethod() == routes.vp {
		return erpc.NewStatus(1404, "reply refused after its body", "")
	}
	return nil
}

// ---- cases ----

// Case is one scenario (a pure function of tier, seed and its index).
type Case struct {
	Class     string `json:"class"`      // how the calls of the batch are completed
	Proto     string `json:"proto"`      //
	Far       string `json:"far_end"`    // "peer" (an eRPC peer serves), "swallow" (reads and never answers), "tcp" (loopback, redial-enabled caller)
	Loss      string `json:"connection"` // "", "eof", "reset", "mid-reply", "far-session-close", "own-close+eof", "own-close+reset", "closed-before"
	Through   bool   `json:"issuers_keep_issuing_through_the_loss"`
	Chans     int    `json:"completion_channels"`
	Issuers   int    `json:"issuers_per_channel"`
	K         int    `json:"calls_per_issuer"`
	Consumers int    `json:"consumers_per_channel"`
	Style     string `json:"consumer"` // "at-once": StatusOK, Status, then the Done-waiting accessors; "status-only": nothing but StatusOK/Status; "select": one consumer over all channels
	Waiters   bool   `json:"issuers_also_wait_on_their_handles"`
	Chunk     string `json:"chunk"`
	Log       string `json:"log"`
	CountTime bool   `json:"count_time"`
	Mix       string `json:"calls"` // "park", "answered", "mixed", "refused"
}

var protoNames = []string{"raw", "json", "pb", "thrift-binary", "http", "ws-json", "ws-pb"}

type classDef struct {
	name, far, mix string
	losses         []string
	through        int // 0 never, 1 sometimes, 2 always
}

var classes = []classDef{
	{"lost-unanswered", "swallow", "park", []string{"eof", "reset"}, 1},
	{"lost-parked", "peer", "park", []string{"eof", "reset", "far-session-close"}, 1},
	{"lost-mixed", "peer", "mixed", []string{"eof", "reset", "far-session-close", "mid-reply"}, 2},
	{"own-close-then-lost", "peer", "park", []string{"own-close+eof", "own-close+reset"}, 0},
	{"replies", "peer", "answered", []string{""}, 0},
	{"refused-before-write", "peer", "refused", []string{"", "closed-before"}, 0},
	{"redial", "tcp", "park", []string{"eof"}, 0},
	{"lost-unanswered", "swallow", "park", []string{"eof", "reset"}, 2},
}

func caseList(tierName string, r *core.Rand) []Case {
	n := 96
	if tierName == "thorough" {
		n = 768
	}
	var out []Case
	for i := 0; i < n; i++ {
		// the class index advances with the round, so that every batch (i % nbatch) meets every class
		cd := classes[(i+i/len(classes))%len(classes)]
		c := Case{Class: cd.name, Far: cd.far, Mix: cd.mix}
		c.Proto = protoNames[(i/len(classes)+i)%len(protoNames)]
		if cd.far != "peer" {
			// a byte-stream protocol: the swallowing end and the loopback listener do no websocket handshake
			c.Proto = []string{"raw", "json", "pb", "thrift-binary", "http"}[(i/len(classes)+i)%5]
		}
		c.Loss = cd.losses[r.Intn(len(cd.losses))]
		switch cd.through {
		case 1:
			c.Through = r.Intn(3) == 0
		case 2:
			c.Through = true
		}
		c.Chans = 1 + r.Intn(3)
		c.Issuers = 1 + r.Intn(3)
		c.K = []int{1, 4, 8, 16, 24}[r.Intn(5)]
		c.Consumers = 1 + r.Intn(3)
		c.Style = []string{"at-once", "at-once", "status-only", "select"}[r.Intn(4)]
		if c.Style == "select" {
			c.Consumers = 1
			if c.Chans == 1 {
				c.Chans = 2
			}
		}
		c.Waiters = r.Intn(3) == 0
		c.Chunk = []string{"whole", "whole", "prime", "rand"}[r.Intn(4)]
		c.CountTime = r.Intn(2) == 0
		out = append(out, c)
	}
	return out
}

// unanswerable: no reply to this call can have reached the caller in this case.
func unanswerable(c Case, route string) bool {
	switch c.Class {
	case "lost-unanswered":
		return true
	case "lost-parked", "own-close-then-lost", "lost-mixed", "redial":
		// parked handlers are released only after every command was consumed where the connection simply ends
		// (far-session-close and mid-reply release them earlier: they may answer)
		return route == routes.park && (strings.HasSuffix(c.Loss, "eof") || strings.HasSuffix(c.Loss, "reset"))
	}
	return false
}

type obs struct {
	consumed, okAtOnce, failedAtOnce int64
	changed, staleOK                 int64
	cancelled, answered              int64
	note                             atomic.Value // first observation text
}

// look is what a consumer does with a command it took from the completion channel.
func look(c Case, o *obs, cmd erpc.CallCmd) {
	ok0 := cmd.StatusOK()
	st0 := cmd.Status()
	atomic.AddInt64(&o.consumed, 1)
	if ok0 {
		atomic.AddInt64(&o.okAtOnce, 1)
	} else {
		atomic.AddInt64(&o.failedAtOnce, 1)
	}
	if c.Style == "status-only" {
		if ok0 && unanswerable(c, cmd.Output().ServiceMethod()) {
			atomic.AddInt64(&o.staleOK, 1)
			o.note.Store(fmt.Sprintf("call to %s was delivered to the completion channel with an OK status; nobody answered it", cmd.Output().ServiceMethod()))
		}
		return
	}
	// the documented accessors of a completed call (each waits for Done)
	_, st1 := cmd.Reply()
	_ = cmd.InputMeta()
	_ = cmd.InputBodyCodec()
	_ = cmd.CostTime()
	_ = cmd.Context()
	route := cmd.Output().ServiceMethod()
	if st1 != st0 || st1.OK() != ok0 {
		atomic.AddInt64(&o.changed, 1)
		o.note.Store(fmt.Sprintf("call to %s: status when taken from the completion channel: %v; status after Done: %v", route, st0, st1))
	}
	if ok0 && unanswerable(c, route) {
		atomic.AddInt64(&o.staleOK, 1)
		o.note.Store(fmt.Sprintf("call to %s was delivered to the completion channel with an OK status; nobody answered it (status after Done: %v)", route, st1))
	}
	if st1.OK() {
		atomic.AddInt64(&o.answered, 1)
	} else if st1.Code() == erpc.CodeConnClosed {
		atomic.AddInt64(&o.cancelled, 1)
	}
}

var cancelledCtx = func() context.Context {
	c, f := context.WithCancel(context.Background())
	f()
	return c
}()

// issue makes the j-th call of an issuer; what it calls depends on the case's mix.
func issue(mix string, sess erpc.Session, ch chan erpc.CallCmd, gr *core.Rand, tag string) erpc.CallCmd {
	arg := tag + strings.Repeat("x", gr.Intn(40))
	switch mix {
	case "park":
		return sess.AsyncCall(routes.park, arg, new(string), ch)
	case "answered":
		switch gr.Intn(9) {
		case 0:
			return sess.AsyncCall(routes.fail, arg, new(string), ch)
		case 1:
			return sess.AsyncCall(routes.none, arg, new(string), ch)
		case 2:
			return sess.AsyncCall(routes.echo, arg, new(int), ch) // the reply (a JSON string) cannot be decoded into the result
		case 3:
			return sess.AsyncCall(routes.vh, arg, new(string), ch)
		case 4:
			return sess.AsyncCall(routes.vb, arg, new(string), ch)
		case 5:
			return sess.AsyncCall(routes.vp, arg, new(string), ch)
		case 6:
			return sess.AsyncCall(routes.slow, arg, new(string), ch)
		}
		return sess.AsyncCall(routes.echo, arg, new(string), ch)
	case "refused":
		switch gr.Intn(4) {
		case 0:
			return sess.AsyncCall(routes.echo, arg, new(string), ch, erpc.WithSetMeta("V", "w"))
		case 1:
			return sess.AsyncCall(routes.echo, make(chan int), new(string), ch, erpc.WithBodyCodec(codec.ID_JSON)) // not encodable
		case 2:
			return sess.AsyncCall(routes.echo, arg, new(string), ch, erpc.WithContext(cancelledCtx))
		}
		return sess.AsyncCall(routes.echo, arg, new(string), ch)
	}
	// mixed: pending calls, answered calls and refused calls on the same channel
	switch gr.Intn(8) {
	case 0, 1, 2:
		return sess.AsyncCall(routes.park, arg, new(string), ch)
	case 3:
		return sess.AsyncCall(routes.slow, arg, new(string), ch)
	case 4:
		return sess.AsyncCall(routes.fail, arg, new(string), ch)
	case 5:
		return sess.AsyncCall(routes.echo, arg, new(string), ch, erpc.WithSetMeta("V", "w"))
	}
	return sess.AsyncCall(routes.echo, arg, new(string), ch)
}

// swallow reads and discards what the caller writes.
func swallow(c *memconn.Conn) {
	buf := make([]byte, 4096)
	for {
		if _, err := c.Read(buf); err != nil {
			return
		}
	}
}

// tcpFar is a loopback listener whose connections are served by peer b; it remembers the accepted connections.
type tcpFar struct {
	lis   net.Listener
	mu    sync.Mutex
	conns []net.Conn
}

func newTCPFar(b erpc.Peer, pf erpc.ProtoFunc) (*tcpFar, error) {
	lis, err := net.Listen("tcp", "127.0.0.1:0")
	if err != nil {
		return nil, err
	}
	t := &tcpFar{lis: lis}
	go func() {
		for {
			c, err := lis.Accept()
			if err != nil {
				return
			}
			t.mu.Lock()
			t.conns = append(t.conns, c)
			t.mu.Unlock()
			go b.ServeConn(c, pf)
		}
	}()
	return t, nil
}

// dropAll closes the connections accepted so far (the listener stays: a redial finds the server again)
// and tells how many there were.
func (t *tcpFar) dropAll() int {
	t.mu.Lock()
	cs := t.conns
	t.conns = nil
	t.mu.Unlock()
	for _, c := range cs {
		c.Close()
	}
	return len(cs)
}

func (t *tcpFar) accepted() int {
	t.mu.Lock()
	defer t.mu.Unlock()
	return len(t.conns)
}

func runCase(id string, c Case, r *core.Rand) {
	p := protos.ByName(c.Proto)
	env := &caseEnv{release: make(chan struct{})}
	cur.Store(env)
	var relOnce sync.Once
	release := func() { relOnce.Do(func() { close(env.release) }) }
	defer release()

	pacfg := erpc.PeerConfig{PrintDetail: c.Log != "OFF", CountTime: c.CountTime}
	if c.Far == "tcp" {
		pacfg.RedialTimes, pacfg.RedialInterval = 3, time.Millisecond
	}
	pa := erpc.NewPeer(pacfg, veto{})
	pb := erpc.NewPeer(erpc.PeerConfig{PrintDetail: c.Log != "OFF", CountTime: c.CountTime})
	register(pb)
	defer func() {
		release()
		var cwg sync.WaitGroup
		cwg.Add(2)
		go func() { defer cwg.Done(); pa.Close() }()
		go func() { defer cwg.Done(); pb.Close() }()
		cwg.Wait()
	}()

	var (
		sess   erpc.Session // the caller's session
		farS   erpc.Session // the serving session (far end "peer")
		ca, cb *memconn.Conn
		far    *tcpFar
	)
	cseed := int64(r.Uint64() >> 1)
	prep := func(a, b *memconn.Conn) {
		switch c.Chunk {
		case "prime":
			a.SetReadChunk(memconn.ChunkFixed(7))
			b.SetReadChunk(memconn.ChunkFixed(13))
		case "rand":
			a.SetReadChunk(memconn.ChunkRand(cseed, 300))
			b.SetReadChunk(memconn.ChunkRand(cseed+1, 300))
		}
	}
	inconclusive := func(what string) {
		core.Add("cases_inconclusive", 1)
		core.Result(core.R{ID: id, Verdict: core.Inconclusive, What: what})
	}
	switch c.Far {
	case "peer":
		var l *bed.Link
		var err error
		if p.Stream {
			l, err = bed.Connect(pa, pb, p.Func, p.Func, prep)
		} else {
			l, err = bed.ConnectWS(pa, pb, p.Func, prep)
		}
		if err != nil {
			inconclusive("connect: " + err.Error())
			return
		}
		sess, farS, ca, cb = l.A, l.B, l.CA, l.CB
	case "swallow":
		ca, cb = memconn.NewPair()
		prep(ca, cb)
		go swallow(cb)
		var st *erpc.Status
		if sess, st = pa.ServeConn(ca, p.Func); !st.OK() {
			inconclusive("ServeConn: " + st.String())
			return
		}
	case "tcp":
		var err error
		if far, err = newTCPFar(pb, p.Func); err != nil {
			inconclusive("listen: " + err.Error())
			return
		}
		defer far.lis.Close()
		var st *erpc.Status
		if sess, st = pa.Dial(far.lis.Addr().String(), p.Func); !st.OK() {
			inconclusive("dial: " + st.String())
			return
		}
		if !bed.WaitUntil(10*time.Second, func() bool { return far.accepted() >= 1 }) {
			inconclusive("the listener did not accept the dialled connection")
			return
		}
	}

	if c.Loss == "closed-before" {
		// the calls are made on a session that is already closed: each is refused by the write
		sess.Close()
	}

	total := c.Issuers * c.K // per channel
	if c.Far == "tcp" {
		total += c.Issuers * 2 // a second wave after the redial
	}
	o := &obs{}
	chans := make([]chan erpc.CallCmd, c.Chans)
	for i := range chans {
		chans[i] = make(chan erpc.CallCmd, total)
	}
	var consumers, issuers, waiters sync.WaitGroup
	if c.Style == "select" {
		consumers.Add(1)
		go func() {
			defer consumers.Done()
			// one collector over all completion channels
			for left := total * c.Chans; left > 0; left-- {
				var cmd erpc.CallCmd
				switch len(chans) {
				case 2:
					select {
					case cmd = <-chans[0]:
					case cmd = <-chans[1]:
					}
				default:
					select {
					case cmd = <-chans[0]:
					case cmd = <-chans[1]:
					case cmd = <-chans[2]:
					}
				}
				look(c, o, cmd)
			}
		}()
	} else {
		for _, ch := range chans {
			for k := 0; k < c.Consumers; k++ {
				quota := total / c.Consumers
				if k < total%c.Consumers {
					quota++
				}
				consumers.Add(1)
				go func(ch chan erpc.CallCmd, quota int) {
					defer consumers.Done()
					for ; quota > 0; quota-- {
						look(c, o, <-ch)
					}
				}(ch, quota)
			}
		}
	}

	var issued, waited int64
	wave := func(n int, tag, mix string) {
		for ci, ch := range chans {
			for g := 0; g < c.Issuers; g++ {
				issuers.Add(1)
				go func(ch chan erpc.CallCmd, gr *core.Rand, tag string) {
					defer issuers.Done()
					for j := 0; j < n; j++ {
						cmd := issue(mix, sess, ch, gr, fmt.Sprintf("%s.%d.", tag, j))
						atomic.AddInt64(&issued, 1)
						if c.Waiters && j%2 == 0 {
							// the issuer keeps the handle AsyncCall returned and waits on it, next to the channel's consumer
							waiters.Add(1)
							go func() {
								defer waiters.Done()
								<-cmd.Done()
								_ = cmd.StatusOK()
								_ = cmd.Status()
								_, _ = cmd.Reply()
								_ = cmd.CostTime()
								atomic.AddInt64(&waited, 1)
							}()
						}
						if j%4 == 3 {
							runtime.Gosched()
						}
					}
				}(ch, core.NewRand(int64(r.Uint64()>>1)), fmt.Sprintf("%s%d.%d", tag, ci, g))
			}
		}
	}
	wave(c.K, "w", c.Mix)

	// the loss of the connection
	all := int64(c.Chans * c.Issuers * c.K)
	if c.Through {
		// while the issuers are still issuing (from about a third of the calls on)
		bed.WaitUntil(5*time.Second, func() bool { return atomic.LoadInt64(&issued) >= all/3 })
	} else {
		issuers.Wait()
	}
	lost := true // the connection was really taken away where the case says so
	lose := func(kind string) {
		switch kind {
		case "eof":
			switch c.Far {
			case "tcp":
				lost = far.dropAll() > 0
			default:
				cb.Close()
			}
		case "reset":
			ca.Sever(true)
		}
	}
	switch c.Loss {
	case "eof", "reset":
		lose(c.Loss)
	case "mid-reply":
		// the far end's stream ends a few bytes further on: in the middle of a reply (or, if none is written any more, now-ish)
		cb.CutWritesAfter(cb.Written()+int64(1+r.Intn(400)), r.Intn(2) == 0, nil)
		release()
	case "far-session-close":
		go farS.Close()
		runtime.Gosched()
		release()
	case "own-close+eof", "own-close+reset":
		go sess.Close()
		// Close() waits for the pending calls; the connection is lost while it does (either order is a legal history)
		bed.WaitUntil(2*time.Second, func() bool { return !sess.Health() })
		lose(strings.TrimPrefix(c.Loss, "own-close+"))
	case "", "closed-before":
	}
	issuers.Wait()
	if c.Far == "tcp" {
		// the redial-enabled caller: a second wave of calls after the loss, on the same completion channels
		// (answered over the new connection, or refused - both are complete calls)
		// (after the redial, not during it: calls that overlap a redial are the business of C13 and of the traffic worker)
		bed.WaitUntil(3*time.Second, func() bool { return far.accepted() >= 1 && sess.Health() })
		time.Sleep(5 * time.Millisecond)
		wave(2, "v", "answered")
		issuers.Wait()
	}

	// every call issued is delivered once to its channel: wait for the consumers (watchdog: no verdict from time)
	earlyRelease := false
	done := make(chan struct{})
	go func() { consumers.Wait(); waiters.Wait(); close(done) }()
	select {
	case <-done:
	case <-time.After(6 * time.Second):
		// not delivered yet: a parked handler may be what the rest waits for (far-session-close, mid-reply cut not reached)
		earlyRelease = true
		core.Add("cases_whose_parked_handlers_were_released_by_the_watchdog", 1)
		release()
		if c.Loss == "mid-reply" {
			cb.Close()
		}
		select {
		case <-done:
		case <-time.After(10 * time.Second):
			q := quiesce.Wait(quiesce.Options{Timeout: 5 * time.Second, Self: "main.runCase"})
			blocked := quiesce.Brief(quiesce.Blocked(q.Dump, "github.com/henrylee2cn/erpc/v6.(*session)"))
			if len(blocked) > 6 {
				blocked = blocked[:6]
			}
			if ca != nil {
				ca.Sever(false)
			}
			if far != nil {
				far.dropAll()
			}
			fmt.Fprintf(os.Stderr, "case %s: %d of %d completions consumed; blocked: %v\n", id, atomic.LoadInt64(&o.consumed), total*c.Chans, blocked)
			inconclusive(fmt.Sprintf("only %d of %d issued calls were delivered to their completion channel (C02's business; too little observed here)", atomic.LoadInt64(&o.consumed), total*c.Chans))
			// the goroutines of this case are abandoned; the process goes on with the next case
			return
		}
	}
	release()

	core.Add("evaluations", o.consumed)
	core.Add("commands_looked_at_when_taken_from_the_channel", o.consumed)
	core.Add("of_them_ok_at_once", o.okAtOnce)
	core.Add("of_them_failed_at_once", o.failedAtOnce)
	core.Add("completed_by_connection_loss_as_seen_after_done", o.cancelled)
	core.Add("completed_by_an_ok_reply_as_seen_after_done", o.answered)
	core.Add("handles_waited_on_by_their_issuer", atomic.LoadInt64(&waited))
	sig := fmt.Sprintf("%s/%s/%s/through=%v/%s/ch%d.i%d.k%d.c%d/wait=%v/%s", c.Class, c.Proto, c.Loss, c.Through, c.Style, c.Chans, c.Issuers, c.K, c.Consumers, c.Waiters, c.Chunk)
	noLoss := c.Class == "replies" || c.Class == "refused-before-write"
	nontrivial := o.consumed > 0 && (noLoss || o.cancelled > 0 || c.Style == "status-only")
	if nontrivial {
		core.Distinct("nontrivial", sig)
	}
	core.Distinct("class_proto_loss", c.Class+"/"+c.Proto+"/"+c.Loss)
	core.Sample(map[string]interface{}{"case": c, "consumed": o.consumed, "ok_at_once": o.okAtOnce, "completed_by_connection_loss": o.cancelled, "answered": o.answered})
	if o.staleOK > 0 && o.changed == 0 && (earlyRelease || !lost) {
		// the parked handlers were let go before everything was consumed: "nobody answered" is not known here
		inconclusive("the parked handlers were released before every command was consumed; an OK status proves nothing in this run")
		return
	}
	if o.changed > 0 || o.staleOK > 0 {
		sym := "status-changed-after-delivery"
		if o.changed == 0 {
			sym = "unanswered-call-delivered-ok"
		}
		note, _ := o.note.Load().(string)
		core.Result(core.R{ID: id, Verdict: core.Violated, FP: fmt.Sprintf("%s/completion/%s/%s/%s", *prop, c.Class, c.Style, sym),
			What:    fmt.Sprintf("%s %s: %s (%d changed, %d unanswered-but-OK of %d commands)", c.Class, c.Proto, note, o.changed, o.staleOK, o.consumed),
			Witness: map[string]interface{}{"observation": note, "changed": o.changed, "stale_ok": o.staleOK, "consumed": o.consumed}, Desc: c, Sig: sig})
		return
	}
	core.Result(core.R{ID: id, Verdict: core.Held, Sig: sig, Nontrivial: nontrivial})
}

type discard struct{}

func (discard) Output(calldepth int, msgBytes []byte, loggerLevel erpc.LoggerLevel) {}
func (discard) Flush() error                                                        { return nil }

func main() {
	flag.Parse()
	core.Prop = *prop
	wire.RegFilters()
	bed.Init("OFF")
	erpc.SetLoggerOutputter(discard{})
	// the logger level is a plain process global: set once per worker process, never while traffic runs
	logLevel := []string{"OFF", "OFF", "DEBUG"}[*batch%3]
	erpc.SetLoggerLevel(logLevel)

	cases := caseList(*tier, core.NewRand(*seed, 14))
	for i, c := range cases {
		if i%*nbatch != *batch {
			continue
		}
		c.Log = logLevel
		id := fmt.Sprintf("cpl%03d", i)
		core.Begin(id, c)
		t0 := time.Now()
		runCase(id, c, core.NewRand(*seed, int64(i), 15))
		fmt.Fprintf(os.Stderr, "case %s %s/%s/%s took %v\n", id, c.Class, c.Proto, c.Loss, time.Since(t0).Round(time.Millisecond))
	}
	core.Finish()
}
