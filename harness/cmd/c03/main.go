// Worker for C03: each received CALL is handled at most once and answered exactly once; a PUSH
// triggers at most one handler invocation and never a reply; a frame of an unsupported type is
// answered by disconnecting. The far end is a script (rawpeer); the oracle counts REPLY frames per
// sequence number on the wire and handler invocations per request id.
package main

import (
	"bytes"
	"flag"
	"fmt"
	"math"
	"sort"
	"strings"
	"sync"
	"sync/atomic"
	"time"

	erpc "github.com/henrylee2cn/erpc/v6"
	"github.com/henrylee2cn/erpc/v6/codec"

	"verifharness/bed"
	"verifharness/core"
	"verifharness/protos"
	"verifharness/quiesce"
	"verifharness/rawpeer"
	"verifharness/tok"
	"verifharness/wire"
)

var (
	prop   = flag.String("prop", "C03", "")
	tier   = flag.String("tier", "quick", "")
	seed   = flag.Int64("seed", 1, "")
	batch  = flag.Int("batch", 0, "")
	nbatch = flag.Int("nbatch", 1, "")
	replay = flag.String("replay", "", "")
)

const readLimit = 256 * 1024

var (
	invMu sync.Mutex
	inv   = map[string]int{}
)

func count(rid string) {
	invMu.Lock()
	inv[rid]++
	invMu.Unlock()
}

func invocations(rid string) int {
	invMu.Lock()
	defer invMu.Unlock()
	return inv[rid]
}

var parkCh atomic.Value // chan struct{}

// smallPool: in the last batch of a run the process-wide goroutine pool is this small (erpc.SetGopool), so that
// more handlers are in flight than the pool has room for
const smallPool = 6

type unmarshalable struct {
	C chan int `json:"c"`
}

var nilMap map[string]int

// panicMarshal is a result whose JSON encoder panics (a bug in application code reached while the reply is written).
type panicMarshal struct{ p *int }

func (m *panicMarshal) MarshalJSON() ([]byte, error) { return []byte(fmt.Sprint(*m.p)), nil }

func behave(mode, rid string) (interface{}, *erpc.Status) {
	switch mode {
	case "status":
		return nil, erpc.NewStatus(1234, "handler says no", rid)
	case "panic-string":
		panic("c03 panic " + rid)
	case "panic-error":
		panic(fmt.Errorf("c03 error %s", rid))
	case "panic-status":
		panic(erpc.NewStatus(777, "panic status", rid))
	case "panic-nil":
		nilMap["x"] = 1
	case "park":
		// held until the script releases its handlers (the handlers of a script are in flight together)
		if ch, _ := parkCh.Load().(chan struct{}); ch != nil {
			<-ch
		}
	case "slow":
		time.Sleep(300 * time.Microsecond)
	case "slow-beyond-age":
		time.Sleep(150 * time.Millisecond) // far beyond the context age of the "aged" server (20 ms)
	case "status-fw":
		// a handler passing on a framework-coded status (a gateway reporting its backend's connection error, a 404 of its own ...)
		codes := []int32{erpc.CodeConnClosed, erpc.CodeWriteFailed, erpc.CodeDialFailed, erpc.CodeNotFound, erpc.CodeBadMessage, erpc.CodeInternalServerError, erpc.CodeWrongConn}
		return nil, erpc.NewStatus(codes[len(rid)%len(codes)], "passed on by the handler", rid)
	case "slow-beyond-age-102":
		time.Sleep(150 * time.Millisecond)
		return nil, erpc.NewStatus(erpc.CodeConnClosed, "backend connection closed", rid)
	case "badresult":
		return &unmarshalable{C: make(chan int)}, nil
	case "panicresult":
		// the handler returns normally; its result panics while it is encoded into the reply
		return &panicMarshal{}, nil
	case "bigresult":
		return bytes.Repeat([]byte{'B'}, readLimit+4096), nil
	}
	return []byte("ok:" + rid), nil
}

// HCall is the byte-body call handler.
func HCall(ctx erpc.CallCtx, arg *[]byte) (interface{}, *erpc.Status) {
	rid := string(ctx.PeekMeta("Rid"))
	count(rid)
	return behave(string(ctx.PeekMeta("Mode")), rid)
}

// HTyped decodes a json object.
func HTyped(ctx erpc.CallCtx, arg *tok.Arg) (interface{}, *erpc.Status) {
	rid := string(ctx.PeekMeta("Rid"))
	count(rid)
	return behave(string(ctx.PeekMeta("Mode")), rid)
}

// Ctl is a controller struct.
type Ctl struct{ erpc.CallCtx }

func (c *Ctl) Do(arg *[]byte) (interface{}, *erpc.Status) {
	rid := string(c.PeekMeta("Rid"))
	count(rid)
	return behave(string(c.PeekMeta("Mode")), rid)
}

// HPush is the push handler.
func HPush(ctx erpc.PushCtx, arg *[]byte) *erpc.Status {
	rid := string(ctx.PeekMeta("Rid"))
	count(rid)
	if string(ctx.PeekMeta("Mode")) == "panic-string" {
		panic("c03 push panic " + rid)
	}
	return nil
}

type vetoPlugin struct{}

func (vetoPlugin) Name() string { return "c03-veto" }
func veto(ctx erpc.ReadCtx, stage string) *erpc.Status {
	if string(ctx.PeekMeta("Veto")) == stage {
		return erpc.NewStatus(2000, "vetoed at "+stage, "")
	}
	return nil
}
func (vetoPlugin) PostReadCallHeader(ctx erpc.ReadCtx) *erpc.Status {
	return veto(ctx, "PostReadCallHeader")
}
func (vetoPlugin) PreReadCallBody(ctx erpc.ReadCtx) *erpc.Status { return veto(ctx, "PreReadCallBody") }
func (vetoPlugin) PostReadCallBody(ctx erpc.ReadCtx) *erpc.Status {
	return veto(ctx, "PostReadCallBody")
}
func (vetoPlugin) PostReadPushHeader(ctx erpc.ReadCtx) *erpc.Status {
	return veto(ctx, "PostReadPushHeader")
}
func (vetoPlugin) PostReadPushBody(ctx erpc.ReadCtx) *erpc.Status {
	return veto(ctx, "PostReadPushBody")
}

// write-stage hooks: a non-OK verdict or a panic there must not change the reply count either
func writeStage(ctx erpc.WriteCtx, stage string) *erpc.Status {
	rc, ok := ctx.(erpc.ReadCtx)
	if !ok {
		return nil
	}
	switch string(rc.PeekMeta("Wstage")) {
	case stage + ":panic":
		panic("c03 plugin panic at " + stage)
	case stage + ":error":
		return erpc.NewStatus(2001, "write-stage verdict at "+stage, "")
	}
	return nil
}
func (vetoPlugin) PreWriteReply(ctx erpc.WriteCtx) *erpc.Status {
	return writeStage(ctx, "PreWriteReply")
}
func (vetoPlugin) PostWriteReply(ctx erpc.WriteCtx) *erpc.Status {
	return writeStage(ctx, "PostWriteReply")
}

type frame struct {
	Kind  string `json:"kind"`
	Seq   int32  `json:"seq"`
	Rid   string `json:"rid"`
	Mtype byte   `json:"mtype"`
	spec  wire.Spec
}

var callKinds = []string{"call-ok", "call-ok", "call-ok", "call-ctl", "call-typed", "call-status", "call-panic-string", "call-panic-error", "call-panic-status", "call-panic-nil",
	"call-slow", "call-status-fw", "call-badresult", "call-panicresult", "call-bigresult", "call-unknown-route", "call-empty-route", "call-undecodable", "call-wrong-type", "call-unknown-codec",
	"call-veto-PostReadCallHeader", "call-veto-PreReadCallBody", "call-veto-PostReadCallBody",
	"call-wstage-PreWriteReply:panic", "call-wstage-PreWriteReply:error", "call-wstage-PostWriteReply:panic", "call-wstage-PostWriteReply:error"}
var pushKinds = []string{"push-ok", "push-ok", "push-unknown-route", "push-panic", "push-veto-PostReadPushHeader", "push-veto-PostReadPushBody", "push-empty-route"}
var otherKinds = []string{"reply-unknown-seq"}

func meta(rid, mode, veto string) []wire.KV {
	m := []wire.KV{{K: "Rid", V: rid}}
	if mode != "" {
		m = append(m, wire.KV{K: "Mode", V: mode})
	}
	if veto != "" {
		m = append(m, wire.KV{K: "Veto", V: veto})
	}
	return m
}

func mkFrame(kind string, seq int32, rid string, p protos.P, routes map[string]string) (frame, bool) {
	f := frame{Kind: kind, Seq: seq, Rid: rid, Mtype: erpc.TypeCall}
	s := wire.Spec{Seq: seq, Mtype: erpc.TypeCall, Method: routes["call"], Codec: codec.ID_PLAIN, Body: []byte("body-" + rid), Meta: meta(rid, "", ""), Class: map[string]string{}}
	switch {
	case kind == "call-ok":
	case kind == "call-ctl":
		s.Method = routes["ctl"]
	case kind == "call-typed":
		s.Method, s.Codec, s.Body = routes["typed"], codec.ID_JSON, []byte(`{"tok":"t","pay":"p"}`)
	case strings.HasPrefix(kind, "call-veto-"):
		s.Meta = meta(rid, "", strings.TrimPrefix(kind, "call-veto-"))
	case strings.HasPrefix(kind, "call-wstage-"):
		s.Meta = append(meta(rid, "", ""), wire.KV{K: "Wstage", V: strings.TrimPrefix(kind, "call-wstage-")})
	case kind == "call-unknown-route":
		s.Method = "/nobody/home"
	case kind == "call-empty-route":
		if p.HTTP {
			return f, false
		}
		s.Method = ""
	case kind == "call-undecodable":
		s.Method, s.Codec, s.Body = routes["typed"], codec.ID_JSON, []byte(`{"tok": [broken`)
	case kind == "call-wrong-type":
		s.Method, s.Codec, s.Body = routes["typed"], codec.ID_JSON, []byte(`[1,2,3]`)
	case kind == "call-unknown-codec":
		if p.HTTP {
			return f, false
		}
		s.Method, s.Codec, s.Body = routes["typed"], 'Q', []byte(`{"tok":"t"}`)
	case kind == "call-panicresult":
		// json request, so that the reply is encoded by the json codec (which calls the result's MarshalJSON)
		s.Method, s.Codec, s.Body = routes["typed"], codec.ID_JSON, []byte(`{"tok":"t","pay":"p"}`)
		s.Meta = meta(rid, "panicresult", "")
	case kind == "call-bigresult":
		if p.Name != "raw" {
			return f, false // only raw refuses to pack a frame above the size limit
		}
		s.Meta = meta(rid, "bigresult", "")
	case strings.HasPrefix(kind, "call-"):
		s.Meta = meta(rid, strings.TrimPrefix(kind, "call-"), "")
	case strings.HasPrefix(kind, "push-"):
		if !p.Push {
			return f, false
		}
		s.Mtype, f.Mtype = erpc.TypePush, erpc.TypePush
		s.Method = routes["push"]
		switch kind {
		case "push-unknown-route":
			s.Method = "/nobody/push"
		case "push-empty-route":
			s.Method = ""
		case "push-panic":
			s.Meta = meta(rid, "panic-string", "")
		case "push-veto-PostReadPushHeader", "push-veto-PostReadPushBody":
			s.Meta = meta(rid, "", strings.TrimPrefix(kind, "push-veto-"))
		}
	case kind == "reply-unknown-seq":
		s.Mtype, f.Mtype = erpc.TypeReply, erpc.TypeReply
		s.Method = ""
	case strings.HasPrefix(kind, "mtype-"):
		var t int
		fmt.Sscanf(kind, "mtype-%d", &t)
		s.Mtype, f.Mtype = byte(t), byte(t)
	}
	f.spec = s
	return f, true
}

type script struct {
	Proto    string  `json:"proto"`
	Unknown  bool    `json:"unknown_handlers_set"`
	Delivery string  `json:"delivery"`
	Conns    int     `json:"connections"`
	Frames   []frame `json:"frames"`
	EndType  int     `json:"unsupported_type_at_end"` // -1: final /sync call instead
	Class    string  `json:"class"`
	SeqStart []int32 `json:"first_sequence_number_per_connection"`
}

func main() {
	flag.Parse()
	core.Prop = *prop
	wire.RegFilters()
	bed.Init("OFF")
	erpc.SetReadLimit(readLimit)
	saturate := *batch == *nbatch-1
	if saturate {
		erpc.SetGopool(smallPool, 0)
		core.Add("batches_with_a_small_goroutine_pool", 1)
	}

	nScripts := 300
	protoNames := []string{"raw", "json", "raw", "pb"}
	if *tier == "thorough" {
		nScripts = 5000
		protoNames = []string{"raw", "json", "pb", "thrift-binary", "http"}
	}
	// two server peers per protocol flavour: with and without unknown-handlers
	type server struct {
		peer   erpc.Peer
		routes map[string]string
	}
	servers := map[bool]*server{}
	var aged *server
	for _, unk := range []bool{false, true, false} {
		cfg := erpc.PeerConfig{}
		if len(servers) == 2 {
			cfg.DefaultContextAge = 20 * time.Millisecond // third server: calls and replies carry a context age
		}
		p := erpc.NewPeer(cfg, vetoPlugin{})
		sv := &server{peer: p, routes: map[string]string{}}
		sv.routes["call"] = p.RouteCallFunc(HCall)
		sv.routes["typed"] = p.RouteCallFunc(HTyped)
		sv.routes["ctl"] = p.RouteCall(new(Ctl))[0]
		sv.routes["push"] = p.RoutePushFunc(HPush)
		if unk {
			p.SetUnknownCall(func(ctx erpc.UnknownCallCtx) (interface{}, *erpc.Status) {
				count("unknown-call:" + string(ctx.PeekMeta("Rid")))
				return []byte("unknown"), nil
			})
			p.SetUnknownPush(func(ctx erpc.UnknownPushCtx) *erpc.Status {
				count("unknown-push:" + string(ctx.PeekMeta("Rid")))
				return nil
			})
		}
		if len(servers) == 2 {
			aged = sv
		} else {
			servers[unk] = sv
		}
	}

	for si := 0; si < nScripts; si++ {
		if si%*nbatch != *batch {
			continue
		}
		r := core.NewRand(*seed, int64(si), 3)
		p := protos.ByName(protoNames[si%len(protoNames)])
		unk := r.Intn(2) == 0
		sv := servers[unk]
		agedScript := si%10 == 9
		if agedScript {
			sv, unk = aged, false
		}
		sc := script{Proto: p.Name, Unknown: unk, Delivery: []string{"one-write", "per-frame", "chunks"}[r.Intn(3)], Conns: []int{1, 1, 2, 8}[r.Intn(4)], EndType: -1, Class: "script"}
		n := []int{1, 3, 8, 20, 64}[r.Intn(5)]
		id := fmt.Sprintf("s%05d", si)
		if agedScript {
			sc.Class = "script-context-age"
			n = []int{1, 3, 8}[r.Intn(3)]
		}
		parked := false
		if saturate && sc.Conns > 2 {
			sc.Conns = 2 // every connection's read loop occupies a goroutine of the small pool
		}
		if saturate && !agedScript && si%3 != 0 {
			// more calls in flight at once than the small pool has goroutines: their handlers park until all frames were consumed
			sc.Class = "script-pool-saturated"
			sc.Conns = 1 // (a second connection's read loop would wait for a pool goroutine until the handlers are released)
			n = []int{8, 12, 20}[r.Intn(3)]
			parked = true
			parkCh.Store(make(chan struct{}))
		}
		if p.AnyMtype && r.Intn(4) == 0 && !agedScript && !parked {
			sc.EndType = []int{0, 4, 5, 6, 7, 9, 100, 255}[r.Intn(8)]
			sc.Class = "script-unsupported-type"
		}
		// each connection runs the same shape of script with its own request ids
		type connRun struct {
			frames []frame
			conn   *rawpeer.Conn
			bytes  [][]byte
			ci     int
		}
		var runs []*connRun
		harnessErr := ""
		for ci := 0; ci < sc.Conns; ci++ {
			cr := &connRun{ci: ci}
			var specs []wire.Spec
			// the requests of a connection carry consecutive sequence numbers from a start that places the 32-bit wrap,
			// zero or a digit-count change of the textual encodings inside the script
			starts := []int32{10, math.MaxInt32 - 3, -4, math.MinInt32 + 2, 33, 36*36 - 3, math.MaxInt32 - 40}
			seq := starts[(int(r.Intn(len(starts)*2))+ci)%len(starts)]
			if k := r.Intn(2); k == 0 {
				seq = 10
			}
			sc.SeqStart = append(sc.SeqStart, seq)
			for k := 0; k < n; k++ {
				var kind string
				switch x := r.Intn(10); {
				case agedScript && x < 2:
					kind = "call-slow-beyond-age-102"
				case agedScript && x < 4:
					kind = "call-slow-beyond-age"
				case parked && x < 8:
					kind = "call-park"
				case x < 7:
					kind = callKinds[r.Intn(len(callKinds))]
				case x < 9:
					kind = pushKinds[r.Intn(len(pushKinds))]
				default:
					kind = otherKinds[0]
				}
				seq++
				f, ok := mkFrame(kind, seq, fmt.Sprintf("%s.c%d.%d", id, ci, seq), p, sv.routes)
				if !ok {
					continue
				}
				if kind == "reply-unknown-seq" {
					f.spec.Seq = 1000000 + seq
				}
				cr.frames = append(cr.frames, f)
				specs = append(specs, f.spec)
			}
			// barrier or unsupported type
			seq++
			var last frame
			if sc.EndType >= 0 {
				last, _ = mkFrame(fmt.Sprintf("mtype-%d", sc.EndType), seq, fmt.Sprintf("%s.c%d.end", id, ci), p, sv.routes)
			} else {
				last, _ = mkFrame("call-ok", seq, fmt.Sprintf("%s.c%d.sync", id, ci), p, sv.routes)
				last.Kind = "sync"
			}
			cr.frames = append(cr.frames, last)
			specs = append(specs, last.spec)
			bs, err := rawpeer.Pack(p, specs...)
			if err != nil {
				harnessErr = err.Error()
				break
			}
			// raw protocol: on half of the connections the script is written by the harness's own encoder of the
			// documented layout rather than by the protocol code under test
			if p.Name == "raw" && r.Intn(2) == 0 {
				for i := range specs {
					if rb, ok := wire.RawEncode(specs[i]); ok && i < len(bs) {
						bs[i] = rb
					}
				}
				core.Add("connections_scripted_with_the_reference_encoder", 1)
			}
			cr.bytes = bs
			runs = append(runs, cr)
		}
		if ci0 := len(runs); ci0 > 0 && si < 3*(*nbatch) {
			sc.Frames = runs[0].frames
			core.Sample(sc)
		}
		core.Begin(id, map[string]interface{}{"class": sc.Class, "proto": sc.Proto, "unknown": sc.Unknown, "delivery": sc.Delivery, "conns": sc.Conns, "frames": n, "end_type": sc.EndType})
		if harnessErr != "" {
			core.Result(core.R{ID: id, Verdict: core.Inconclusive, What: "could not pack the script: " + harnessErr})
			continue
		}
		var wg sync.WaitGroup
		for _, cr := range runs {
			wg.Add(1)
			go func(cr *connRun, chunkSeed int64) {
				defer wg.Done()
				cr.conn = rawpeer.Dial(sv.peer, p.Func, nil)
				switch sc.Delivery {
				case "one-write":
					cr.conn.Write(bytes.Join(cr.bytes, nil))
				case "per-frame":
					for _, b := range cr.bytes {
						cr.conn.Write(b)
					}
				default:
					all := bytes.Join(cr.bytes, nil)
					cr2 := core.NewRand(chunkSeed)
					for len(all) > 0 {
						k := 1 + cr2.Intn(97)
						if k > len(all) {
							k = len(all)
						}
						cr.conn.Write(all[:k])
						all = all[k:]
					}
				}
			}(cr, int64(r.Uint64()>>1))
		}
		wg.Wait()
		// barrier: quiescence (all frames consumed, no handler running, no reply being written)
		q := quiesce.Wait(quiesce.Options{Timeout: 30 * time.Second})
		if parked && q.Quiescent {
			// every frame was consumed and the handlers that got a goroutine are parked: release them
			close(parkCh.Load().(chan struct{}))
			core.Add("scripts_with_more_handlers_in_flight_than_pool_goroutines", 1)
			q = quiesce.Wait(quiesce.Options{Timeout: 30 * time.Second})
		}
		if !q.Quiescent {
			core.Result(core.R{ID: id, Verdict: core.Inconclusive, What: "watchdog: process did not become quiescent"})
			for _, cr := range runs {
				cr.conn.Close()
			}
			continue
		}
		type viol struct {
			sym, kind, what string
			ci              int
		}
		var viols []viol
		sigs := map[string]bool{}
		for _, cr := range runs {
			got, eof := cr.conn.Received()
			replies, perr := rawpeer.Parse(p, got)
			if p.Name == "raw" {
				// what the peer wrote is read by the harness's own decoder of the documented layout (no filter pipes in these scripts)
				refs, rest, derr := wire.RawDecode(got)
				core.Add("reply_streams_read_with_the_reference_decoder", 1)
				if derr != nil || len(rest) != 0 {
					perr = fmt.Errorf("reference decoder: %v (%d trailing bytes)", derr, len(rest))
				} else {
					replies = refs
				}
			}
			if perr != nil {
				viols = append(viols, viol{"garbled-output", "-", fmt.Sprintf("conn %d: bytes written by the peer do not parse as frames: %v", cr.ci, perr), cr.ci})
			}
			pending := cr.conn.C.Pending()
			_ = pending
			bySeq := map[int32]int{}
			for _, rp := range replies {
				if rp.Mtype != erpc.TypeReply {
					viols = append(viols, viol{"non-reply-frame", "-", fmt.Sprintf("conn %d: peer wrote a frame of type %d seq %d", cr.ci, rp.Mtype, rp.Seq), cr.ci})
					continue
				}
				bySeq[rp.Seq]++
			}
			consumedAll := cr.conn.S.Pending() == 0 // every byte of the script was read by the peer
			for _, f := range cr.frames {
				core.Add("evaluations", 1)
				sigs[p.Name+"/"+f.Kind] = true
				nrep := bySeq[f.spec.Seq]
				ninv := invocations(f.Rid)
				if f.Mtype == erpc.TypeCall {
					if nrep > 1 {
						viols = append(viols, viol{"answered-twice", f.Kind, fmt.Sprintf("conn %d seq %d (%s): %d REPLY frames", cr.ci, f.spec.Seq, f.Kind, nrep), cr.ci})
					}
					if nrep == 0 && !eof && consumedAll {
						viols = append(viols, viol{"never-answered", f.Kind, fmt.Sprintf("conn %d seq %d (%s): no REPLY although the connection stayed up and the process is quiescent", cr.ci, f.spec.Seq, f.Kind), cr.ci})
					}
				} else if nrep > 0 && f.Mtype != erpc.TypeReply {
					viols = append(viols, viol{"reply-to-non-call", f.Kind, fmt.Sprintf("conn %d seq %d (%s, type %d): %d REPLY frames", cr.ci, f.spec.Seq, f.Kind, f.Mtype, nrep), cr.ci})
				}
				if ninv > 1 {
					viols = append(viols, viol{"handled-twice", f.Kind, fmt.Sprintf("conn %d request %s (%s): %d handler invocations", cr.ci, f.Rid, f.Kind, ninv), cr.ci})
				}
				if strings.Contains(f.Kind, "veto") && ninv > 0 {
					viols = append(viols, viol{"veto-handler-ran", f.Kind, fmt.Sprintf("conn %d request %s: handler ran after %s", cr.ci, f.Rid, f.Kind), cr.ci})
				}
				if strings.HasPrefix(f.Kind, "mtype-") && !eof {
					viols = append(viols, viol{"unsupported-type-not-disconnected", "mtype", fmt.Sprintf("conn %d: frame of type %d was not answered by disconnecting", cr.ci, f.Mtype), cr.ci})
				}
			}
			if eof {
				core.Add("connections_closed_by_peer", 1)
			}
			core.Add("reply_frames_seen", int64(len(replies)))
			cr.conn.Close()
		}
		for s := range sigs {
			core.Distinct("nontrivial", s+"/"+sc.Delivery)
		}
		if len(viols) == 0 {
			core.Result(core.R{ID: id, Verdict: core.Held})
			continue
		}
		groups := map[string][]viol{}
		for _, v := range viols {
			groups[v.kind+"/"+v.sym] = append(groups[v.kind+"/"+v.sym], v)
		}
		keys := []string{}
		for k := range groups {
			keys = append(keys, k)
		}
		sort.Strings(keys)
		for i, k := range keys {
			rid := id
			if i > 0 {
				rid = fmt.Sprintf("%s#%d", id, i)
				core.Begin(rid, nil)
			}
			sc.Frames = runs[groups[k][0].ci].frames
			core.Result(core.R{ID: rid, Verdict: core.Violated, FP: fmt.Sprintf("C03/%s/%s", p.Name, k), What: groups[k][0].what,
				Witness: map[string]interface{}{"count": len(groups[k]), "first": groups[k][0].what}, Desc: sc})
		}
	}
	core.Finish()
}
