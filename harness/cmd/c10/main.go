// Worker for C10: registered routes dispatch to exactly their handler; unknown names do not.
//
// Quantifier "programs": every program item generates Go source (harness/c10gen), builds it in a
// scratch module under /tmp (replace verifharness => the harness, erpc => the repository under
// test), runs it as a child process (harness/c10rt: registrations, probes over a real session,
// colliding pairs in grandchild processes) and judges the child's observations here. In-process
// items evaluate the two mappers directly (documented table rows, determinism, totality).
package main

import (
	"bytes"
	"encoding/json"
	"flag"
	"fmt"
	"io"
	"os"
	"os/exec"
	"os/signal"
	"path/filepath"
	"regexp"
	"sort"
	"strings"
	"sync"
	"syscall"
	"time"

	erpc "github.com/henrylee2cn/erpc/v6"

	"verifharness/bed"
	"verifharness/c10gen"
	"verifharness/c10rt"
	"verifharness/core"
)

var (
	prop   = flag.String("prop", "C10", "")
	tier   = flag.String("tier", "quick", "")
	seed   = flag.Int64("seed", 1, "")
	batch  = flag.Int("batch", 0, "")
	nbatch = flag.Int("nbatch", 1, "")
	replay = flag.String("replay", "", "")
	keep   = flag.Bool("keep", false, "keep the generated programs (debugging)")
)

// ---------- scratch directories ----------

var (
	tmpMu   sync.Mutex
	tmpDirs = map[string]bool{}
)

const tmpPrefix = "verif-c10-"

func newTmp() string {
	d, err := os.MkdirTemp("", tmpPrefix)
	if err != nil {
		core.Fatalf("scratch dir: %v", err)
	}
	tmpMu.Lock()
	tmpDirs[d] = true
	tmpMu.Unlock()
	return d
}

func dropTmp(d string) {
	if !*keep {
		os.RemoveAll(d)
	}
	tmpMu.Lock()
	delete(tmpDirs, d)
	tmpMu.Unlock()
}

func dropAllTmp() {
	tmpMu.Lock()
	for d := range tmpDirs {
		if !*keep {
			os.RemoveAll(d)
		}
	}
	tmpDirs = map[string]bool{}
	tmpMu.Unlock()
}

// sweepStale removes scratch directories left behind by killed workers.
func sweepStale() {
	ents, _ := filepath.Glob(filepath.Join(os.TempDir(), tmpPrefix+"*"))
	for _, e := range ents {
		if st, err := os.Stat(e); err == nil && time.Since(st.ModTime()) > 2*time.Hour {
			os.RemoveAll(e)
		}
	}
}

// ---------- locating the harness module and the repository under test ----------

var replaceRe = regexp.MustCompile(`(?m)^replace github.com/henrylee2cn/erpc/v6 => (\S+)`)

func locate() (harness, repo string) {
	harness = "/verif/harness"
	if exe, err := os.Executable(); err == nil {
		d := filepath.Dir(filepath.Dir(exe))
		if _, err := os.Stat(filepath.Join(d, "go.mod")); err == nil {
			harness = d
		}
	}
	b, err := os.ReadFile(filepath.Join(harness, "go.mod"))
	if err != nil {
		core.Fatalf("cannot read the harness go.mod: %v", err)
	}
	m := replaceRe.FindSubmatch(b)
	if m == nil {
		core.Fatalf("no replace directive for erpc in %s/go.mod", harness)
	}
	return harness, string(m[1])
}

func goEnv() []string {
	env := []string{}
	for _, e := range os.Environ() {
		k := strings.SplitN(e, "=", 2)[0]
		switch k {
		case "GOFLAGS", "GOPROXY", "GOSUMDB", "GOTOOLCHAIN", "GOTRACEBACK", "GORACE":
			continue
		}
		env = append(env, e)
	}
	return append(env, "GOFLAGS=-mod=mod", "GOPROXY=off", "GOSUMDB=off", "GOTOOLCHAIN=local")
}

func runCmd(timeout time.Duration, dir string, env []string, name string, args ...string) (out []byte, code int, timedOut bool, err error) {
	cmd := exec.Command(name, args...)
	cmd.Dir = dir
	cmd.Env = env
	var buf bytes.Buffer
	cmd.Stdout, cmd.Stderr = &buf, &buf
	if err = cmd.Start(); err != nil {
		return nil, -1, false, err
	}
	done := make(chan error, 1)
	go func() { done <- cmd.Wait() }()
	select {
	case err = <-done:
	case <-time.After(timeout):
		cmd.Process.Kill()
		err = <-done
		timedOut = true
	}
	if ee, ok := err.(*exec.ExitError); ok {
		code, err = ee.ExitCode(), nil
	}
	return buf.Bytes(), code, timedOut, err
}

// ---------- violations ----------

type viol struct {
	scenario, pclass, symptom string
	what                      string
	witness                   interface{}
}

type judge struct {
	mapper string
	viols  []viol
	evals  int64
	incon  []string
}

func (j *judge) v(scenario, pclass, symptom, what string, witness interface{}) {
	if pclass == "" {
		pclass = "-"
	}
	j.viols = append(j.viols, viol{scenario, pclass, symptom, what, witness})
}

func transportCode(c int32) bool { return c == -1 || (c >= 100 && c < 200) }

func tail(s string, n int) string {
	if len(s) > n {
		return "..." + s[len(s)-n:]
	}
	return s
}

var ansiRe = regexp.MustCompile("\\x1b\\[[0-9;]*m")

// lineWith returns the first line of s containing sub (without colour codes).
func lineWith(s, sub string) string {
	for _, l := range strings.Split(s, "\n") {
		if strings.Contains(l, sub) {
			return strings.TrimSpace(ansiRe.ReplaceAllString(l, ""))
		}
	}
	return tail(s, 200)
}

func sameSet(a, b []string) bool {
	if len(a) != len(b) {
		return false
	}
	x, y := append([]string{}, a...), append([]string{}, b...)
	sort.Strings(x)
	sort.Strings(y)
	for i := range x {
		if x[i] != y[i] {
			return false
		}
	}
	return true
}

func has(l []string, s string) bool {
	for _, x := range l {
		if x == s {
			return true
		}
	}
	return false
}

// ---------- the oracle over a child's report ----------

type owner struct {
	reg   *c10gen.RegSpec
	names []string
}

func (j *judge) peer(pi int, ps *c10gen.PeerSpec, pr c10rt.PeerReport) {
	specs := map[string]*c10gen.RegSpec{}
	for _, rs := range ps.Regs {
		specs[rs.ID] = rs
	}
	if pr.Problem != "" {
		j.incon = append(j.incon, fmt.Sprintf("peer %d (%s): %s", pi, ps.Class, pr.Problem))
	}
	owners := map[string]map[string]*owner{"call": {}, "push": {}}
	tagNames := map[string]map[string]bool{} // handler tag -> names returned for it (any registration on this peer)
	for _, rr := range pr.Regs {
		rs := specs[rr.ID]
		if rs == nil {
			j.incon = append(j.incon, "report mentions unknown registration "+rr.ID)
			continue
		}
		scen := ps.Class + ":registration"
		ns := "push"
		if rr.Kind == c10rt.CallFunc || rr.Kind == c10rt.CallStruct {
			ns = "call"
		}
		w := map[string]interface{}{"registration": rs, "returned": rr.Names}
		j.evals++
		if len(rr.Names) != len(rs.Tags) {
			j.v(scen, rs.PClass, "wrong-name-count", fmt.Sprintf("%s registered in %q returned %d names %q for %d handlers", rs.What, rs.Group, len(rr.Names), rr.Names, len(rs.Tags)), w)
		}
		if rs.Expect != nil {
			j.evals += int64(len(rs.Expect))
			if !sameSet(rs.Expect, rr.Names) {
				j.v(scen, rs.PClass, "table-row-mismatch", fmt.Sprintf("%s mapper: %s registered in groups %q returned %q, the documentation gives %q", j.mapper, rs.What, rs.Group, rr.Names, rs.Expect), w)
			}
		}
		if !sameSet(rs.Predicted, rr.Names) {
			core.Add("names_differing_from_in_process_prediction", 1)
		}
		o := &owner{rs, rr.Names}
		for _, n := range rr.Names {
			if n == "" {
				core.Add("registrations_returning_empty_name", 1)
				continue
			}
			j.evals++
			if prev, dup := owners[ns][n]; dup && prev == o {
				j.v("intra-registration-collision", rs.PClass, "silent-collision", fmt.Sprintf("%s mapper: one %s of %s in %q returned %q: the name %q is returned twice and the process went on", j.mapper, rs.Kind, rs.What, rs.Group, rr.Names, n), w)
				continue
			} else if dup {
				j.v(scen, prev.reg.PClass+"~"+rs.PClass, "silent-collision", fmt.Sprintf("%s mapper: %s in %q and %s in %q both returned the %s name %q and the process went on", j.mapper, prev.reg.What, prev.reg.Group, rs.What, rs.Group, ns, n),
					map[string]interface{}{"first": prev.reg, "second": rs, "name": n})
				continue
			}
			owners[ns][n] = o
		}
		for _, t := range rs.Tags {
			if tagNames[t] == nil {
				tagNames[t] = map[string]bool{}
			}
			for _, n := range rr.Names {
				tagNames[t][n] = true
			}
		}
	}
	// probes
	type hit struct{ name, tag string }
	regHits := map[*owner]map[string]string{} // registration -> name -> tag that answered
	utag := fmt.Sprintf("U%d", pi)
	for _, pb := range pr.Probes {
		j.evals++
		core.Add("probes_"+pb.Class, 1)
		scen := ps.Class + ":" + pb.Phase + ":" + pb.Class
		var hEv, uEv, gEv []c10rt.Event
		for _, e := range pb.Events {
			switch e.Kind {
			case "call", "push":
				hEv = append(hEv, e)
			case "guard":
				gEv = append(gEv, e)
			default:
				uEv = append(uEv, e)
			}
		}
		if pb.Phase == "K" {
			core.Add("concurrent_requests", 1)
		}
		core.Add("handler_invocations_observed", int64(len(hEv)))
		core.Add("unknown_handler_invocations_observed", int64(len(uEv)))
		other := "push"
		if pb.Kind == "push" {
			other = "call"
		}
		// dispatch follows the FINAL name: what the peer's header-stage plug-ins made of the requested name
		final := pb.Final
		if final == "" {
			final = pb.Name
		}
		disp := pb.Name
		if final != pb.Name {
			disp = pb.Name + " => " + final
			core.Add("probes_renamed_by_header_plugin", 1)
		}
		own := owners[pb.Kind][final]
		src := owners[pb.Kind][pb.Src]
		if src == nil {
			src = owners[other][pb.Src]
		}
		pclass := "-"
		if src != nil {
			pclass = src.reg.PClass
		}
		w := map[string]interface{}{"probe": pb, "peer_class": ps.Class}
		if src != nil {
			w["derived_from_registration"] = src.reg
			w["derived_from_returned_names"] = src.names
		}
		if pb.Kind == "push" && pb.Code != 0 || pb.Kind == "call" && transportCode(pb.Code) {
			j.incon = append(j.incon, fmt.Sprintf("probe %s %s %q: transport status %d %s", pb.ID, pb.Kind, pb.Name, pb.Code, pb.Msg))
			continue
		}
		core.Distinct("nontrivial", j.mapper+"/"+pclass+"/"+pb.Class)
		// every invocation of a registered handler must be under a name returned for that handler
		bad := false
		for _, e := range gEv {
			bad = true
			j.v(scen, pclass, "controller-shared", fmt.Sprintf("%s mapper: %s %q: the controller object of handler %s was in use by two invocations at once (%s)", j.mapper, strings.ToUpper(pb.Kind), disp, e.Tag, e.SM), w)
		}
		for _, e := range hEv {
			if e.Arg != pb.ID {
				bad = true
				j.v(scen, pclass, "foreign-argument", fmt.Sprintf("%s mapper: %s %q: handler %s ran with the context of request %s (metadata) but with the argument of request %q", j.mapper, strings.ToUpper(pb.Kind), disp, e.Tag, pb.ID, e.Arg), w)
			}
		}
		for _, e := range hEv {
			if e.Kind != pb.Kind {
				bad = true
				j.v(scen, pclass, "call-push-namespace-shared", fmt.Sprintf("%s mapper: a %s for %q ran the %s handler %s", j.mapper, strings.ToUpper(pb.Kind), disp, strings.ToUpper(e.Kind), e.Tag), w)
			} else if own == nil {
				bad = true
				sym := "unregistered-name-invoked-handler"
				if pb.Class == "cross-namespace" {
					sym = "call-push-namespace-shared"
				}
				j.v(scen, pclass, sym, fmt.Sprintf("%s mapper: %s %q (%s of the registered name %q) is not a name returned by any %s registration but handler %s ran", j.mapper, strings.ToUpper(pb.Kind), disp, pb.Class, pb.Src, strings.ToUpper(pb.Kind), e.Tag), w)
			} else if !has(own.reg.Tags, e.Tag) {
				bad = true
				j.v(scen, pclass, "wrong-handler", fmt.Sprintf("%s mapper: %s %q was returned for %s but handler %s (registered under %v) ran", j.mapper, strings.ToUpper(pb.Kind), disp, own.reg.What, e.Tag, keys(tagNames[e.Tag])), w)
			} else if e.SM != final {
				bad = true
				j.v(scen, pclass, "handler-saw-other-name", fmt.Sprintf("%s mapper: %s %q ran handler %s, whose ctx.ServiceMethod() was %q instead of %q", j.mapper, strings.ToUpper(pb.Kind), disp, e.Tag, e.SM, final), w)
			}
		}
		if bad {
			continue
		}
		if own != nil { // a registered name
			switch {
			case len(hEv) == 0:
				sym := "registered-name-not-dispatched"
				if pb.Phase == "K" && pb.Kind == "call" && pb.Code == 0 && pb.Result != "" && (pb.RArg != pb.ID || pb.RMeta != pb.ID) {
					j.v(scen, pclass, "reply-foreign", fmt.Sprintf("%s mapper: CALL %q with request id %s seq %d was never handled under its own id, its caller got the reply handler %s computed for request id %q (argument) / %q (metadata) / seq %d", j.mapper, disp, pb.ID, pb.Seq, pb.Result, pb.RArg, pb.RMeta, pb.RSeq), w)
					continue
				}
				if pb.Phase == "K" {
					sym = "request-not-handled"
				} else if len(uEv) > 0 {
					sym = "registered-name-went-to-unknown-handler"
				} else if pb.Kind == "call" && pb.Code == erpc.CodeNotFound {
					sym = "registered-name-not-found"
				}
				j.v(scen, pclass, sym, fmt.Sprintf("%s mapper: %s registered in %q returned %q, but %s %q ran no handler (status %d %s)", j.mapper, own.reg.What, own.reg.Group, final, strings.ToUpper(pb.Kind), disp, pb.Code, pb.Msg), w)
			case pb.Phase == "K" && len(hEv) > 1:
				j.v(scen, pclass, "request-handled-twice", fmt.Sprintf("%s mapper: %s %q with request id %s was handled %d times (handlers %s, %s)", j.mapper, strings.ToUpper(pb.Kind), disp, pb.ID, len(hEv), hEv[0].Tag, hEv[1].Tag), w)
			case len(hEv) > 1 || len(uEv) > 0:
				j.v(scen, pclass, "multiple-handlers", fmt.Sprintf("%s mapper: one %s for %q ran %d handlers and %d unknown-handlers", j.mapper, strings.ToUpper(pb.Kind), disp, len(hEv), len(uEv)), w)
			case pb.Kind == "call" && (pb.Code != 0 || pb.Result != hEv[0].Tag):
				j.v(scen, pclass, "wrong-handler", fmt.Sprintf("%s mapper: CALL %q ran handler %s but the caller got status %d result %q", j.mapper, disp, hEv[0].Tag, pb.Code, pb.Result), w)
			case pb.Kind == "call" && (pb.RArg != pb.ID || pb.RMeta != pb.ID || pb.RSeq != pb.Seq):
				j.v(scen, pclass, "reply-foreign", fmt.Sprintf("%s mapper: CALL %q with request id %s seq %d was answered by handler %s with the reply of request id %q (argument) / %q (metadata) / seq %d", j.mapper, disp, pb.ID, pb.Seq, pb.Result, pb.RArg, pb.RMeta, pb.RSeq), w)
			default:
				if regHits[own] == nil {
					regHits[own] = map[string]string{}
				}
				regHits[own][final] = hEv[0].Tag
			}
			continue
		}
		// an unregistered name
		unknownSet := pb.Phase == "B" || pb.Phase == "S" || pb.Phase == "K" || (pb.Phase == "C" && pb.Kind == "call")
		if !unknownSet {
			if len(uEv) > 0 { // only possible in phase C: the unknown-CALL-handler answered a push
				j.v(scen, pclass, "call-push-namespace-shared", fmt.Sprintf("%s mapper: %s %q is not registered and only an unknown-%s-handler is set, but unknown-handler %s (%s) ran", j.mapper, strings.ToUpper(pb.Kind), disp, other, uEv[0].Tag, uEv[0].Kind), w)
			} else if pb.Kind == "call" && pb.Code != erpc.CodeNotFound {
				j.v(scen, pclass, "not-404", fmt.Sprintf("%s mapper: CALL %q is not registered and no unknown-call-handler is set, the caller got status %d %q result %q instead of 404", j.mapper, disp, pb.Code, pb.Msg, pb.Result), w)
			}
			continue
		}
		want := "ucall"
		if pb.Kind == "push" {
			want = "upush"
		}
		ok := len(uEv) == 1 && uEv[0].Kind == want && uEv[0].Tag == utag
		if ok && pb.Kind == "call" && (pb.Code != 0 || pb.Result != utag) {
			ok = false
		}
		if ok && uEv[0].SM != final {
			j.v(scen, pclass, "handler-saw-other-name", fmt.Sprintf("%s mapper: %s %q reached the unknown-handler, whose ctx.ServiceMethod() was %q instead of %q", j.mapper, strings.ToUpper(pb.Kind), disp, uEv[0].SM, final), w)
		}
		if !ok {
			how := "on the peer"
			pc := pclass
			if pb.Phase == "S" {
				how = fmt.Sprintf("through SubRoute%q.ToRouter()", ps.UnknownGroup)
				pc = pb.Kind // the identifier pattern is irrelevant for where the unknown-handler was set
			}
			j.v(scen, pc, "unknown-handler-not-reached", fmt.Sprintf("%s mapper: %s %q is not registered and an unknown-%s-handler was set %s, but it ran %d times (caller status %d %q)", j.mapper, strings.ToUpper(pb.Kind), disp, pb.Kind, how, len(uEv), pb.Code, pb.Msg), w)
		}
	}
	// the names of a registration and its handlers correspond one to one
	for o, hits := range regHits {
		j.evals++
		seen := map[string]string{}
		for n, t := range hits {
			if prev, dup := seen[t]; dup && len(o.reg.Tags) > 1 {
				j.v(ps.Class+":registration", o.reg.PClass, "wrong-handler", fmt.Sprintf("%s mapper: %s returned %q, but the names %q and %q both ran handler %s", j.mapper, o.reg.What, o.names, prev, n, t),
					map[string]interface{}{"registration": o.reg, "returned": o.names, "answers": hits})
			}
			seen[t] = n
		}
		// Which name belongs to which method: the documentation fixes it for documented controllers;
		// for the others, name mapping being a function of (prefix, Go identifier) fixes it whenever the
		// returned set equals {mapper(p, method)} for the controller's prefix p (README: Aaa.XxZz -> /aaa/xx_zz).
		for _, exp := range [][]string{o.reg.Expect, o.reg.Predicted} {
			if len(o.reg.Tags) < 2 || len(exp) != len(o.reg.Tags) || !sameSet(exp, o.names) {
				continue
			}
			for n, t := range hits {
				for i, tg := range o.reg.Tags {
					if tg == t && exp[i] != n {
						j.v(ps.Class+":registration", o.reg.PClass, "wrong-handler", fmt.Sprintf("%s mapper: %s in %q returned %q; the name %q ran handler %s, whose own name is %q", j.mapper, o.reg.What, o.reg.Group, o.names, n, t, exp[i]),
							map[string]interface{}{"registration": o.reg, "returned": o.names, "answers": hits, "names_by_handler": exp})
					}
				}
			}
			break
		}
	}
}

func keys(m map[string]bool) []string {
	var l []string
	for k := range m {
		l = append(l, k)
	}
	sort.Strings(l)
	return l
}

func (j *judge) collision(cs *c10gen.CollisionSpec, cr c10rt.CollisionReport) {
	j.evals++
	core.Add("collision_runs", 1)
	scen := "collision:" + cs.Class
	pclass := cs.PClass
	if cs.Single {
		j.single(cs, cr)
		return
	}
	w := map[string]interface{}{"pair": cs.What, "class": cs.Class, "a": cs.A, "b": cs.B, "grandchild": cr}
	sameNS := strings.HasPrefix(cs.A.Kind, "call") == strings.HasPrefix(cs.B.Kind, "call")
	if cr.Problem != "" {
		j.incon = append(j.incon, "collision "+cs.ID+": "+cr.Problem)
		return
	}
	core.Distinct("nontrivial", j.mapper+"/"+pclass+"/"+scen)
	if cr.Survived {
		var shared []string
		for _, a := range cr.NamesA {
			if has(cr.NamesB, a) {
				shared = append(shared, a)
			}
		}
		if sameNS && len(shared) > 0 {
			j.v(scen, pclass, "silent-collision", fmt.Sprintf("%s mapper: %s: both registrations returned %q and the process went on (a request for it ran: %s)", j.mapper, cs.What, shared, cr.Shadow), w)
			return
		}
		if len(shared) > 0 {
			core.Add("collision_runs_same_name_in_call_and_push_table", 1)
		} else {
			core.Add("collision_runs_names_differed", 1)
		}
		return
	}
	loud := cr.Exit != 0 && strings.Contains(cr.Output, "conflict")
	switch {
	case loud && !sameNS:
		j.v(scen, pclass, "call-push-namespace-shared", fmt.Sprintf("%s mapper: %s: a CALL and a PUSH registration were refused as conflicting: %s", j.mapper, cs.What, lineWith(cr.Output, "conflict")), w)
	case loud && cs.ExpectSurvive:
		j.incon = append(j.incon, "control pair died with a conflict: "+cs.What)
	case loud:
		core.Add("collision_runs_loud_conflict", 1)
	case cr.Exit != 0 && (strings.Contains(cr.Output, "panic:") || strings.Contains(cr.Output, "fatal error:")):
		j.v(scen, pclass, "registration-panic", fmt.Sprintf("%s mapper: %s: the registering process crashed: %s", j.mapper, cs.What, tail(cr.Output, 300)), w)
	default:
		j.incon = append(j.incon, fmt.Sprintf("collision %s: exit %d without conflict message: %s", cs.ID, cr.Exit, tail(cr.Output, 200)))
	}
}

// single judges ONE registration (a controller) run in a grandchild: if it was accepted, its
// returned names must be pairwise distinct and every handler must be reachable under exactly the
// name returned for it; if its names collide, the only acceptable outcome is the loud refusal.
func (j *judge) single(cs *c10gen.CollisionSpec, cr c10rt.CollisionReport) {
	const scen = "intra-registration-collision"
	pclass := cs.PClass
	w := map[string]interface{}{"registration": cs.A, "what": cs.What, "class": cs.Class, "grandchild": cr}
	core.Add("single_controller_collision_runs", 1)
	core.Distinct("nontrivial", j.mapper+"/"+pclass+"/"+scen+":"+cs.A.Kind)
	if !cr.Survived {
		switch {
		case cr.Exit != 0 && strings.Contains(cr.Output, "conflict"):
			core.Add("collision_runs_loud_conflict", 1)
		case cr.Exit != 0 && (strings.Contains(cr.Output, "panic:") || strings.Contains(cr.Output, "fatal error:")):
			j.v(scen, pclass, "registration-panic", fmt.Sprintf("%s mapper: %s: the registering process crashed: %s", j.mapper, cs.What, tail(cr.Output, 300)), w)
		default:
			j.incon = append(j.incon, fmt.Sprintf("collision %s: exit %d without conflict message (%s): %s", cs.ID, cr.Exit, cr.Problem, tail(cr.Output, 200)))
		}
		return
	}
	// the registration was accepted and the process went on
	count := map[string]int{}
	var dups []string
	for _, n := range cr.NamesA {
		count[n]++
		if count[n] == 2 {
			dups = append(dups, n)
		}
	}
	if len(dups) > 0 {
		ran := ""
		if cr.Answers != nil {
			ran = fmt.Sprintf("; requesting %q ran %v, so %d of the %d handlers cannot be reached under the name returned for them", dups[0], cr.Answers[dups[0]], len(cr.NamesA)-len(count), len(cs.A.Tags))
		}
		j.v(scen, pclass, "silent-collision", fmt.Sprintf("%s mapper: one %s of %s in %q returned %q: the name %q is returned twice and the process went on%s", j.mapper, cs.A.Kind, cs.A.What, cs.A.Group, cr.NamesA, dups[0], ran), w)
		return
	}
	if cr.Problem != "" {
		j.incon = append(j.incon, "collision "+cs.ID+": "+cr.Problem)
		return
	}
	core.Add("collision_runs_names_differed", 1)
	// names distinct (the planned clash did not happen): still, names <-> handlers one to one
	if len(cr.NamesA) != len(cs.A.Tags) {
		j.v(scen, pclass, "wrong-name-count", fmt.Sprintf("%s mapper: %s returned %d names %q for %d handlers", j.mapper, cs.What, len(cr.NamesA), cr.NamesA, len(cs.A.Tags)), w)
		return
	}
	seen := map[string]string{}
	for _, n := range cr.NamesA {
		if n == "" {
			continue
		}
		tags := cr.Answers[n]
		if len(tags) != 1 || !has(cs.A.Tags, tags[0]) {
			j.v(scen, pclass, "wrong-handler", fmt.Sprintf("%s mapper: %s returned %q, requesting %q ran %v", j.mapper, cs.What, cr.NamesA, n, tags), w)
			return
		}
		if prev, dup := seen[tags[0]]; dup {
			j.v(scen, pclass, "wrong-handler", fmt.Sprintf("%s mapper: %s returned %q, the names %q and %q both ran handler %s", j.mapper, cs.What, cr.NamesA, prev, n, tags[0]), w)
			return
		}
		seen[tags[0]] = n
	}
}

func (j *judge) direct(p *c10gen.Program, rep *c10rt.Report) {
	m := c10rt.MapperFunc(j.mapper)
	for _, d := range rep.Direct {
		j.evals++
		pc := c10gen.Classify(d.Name)
		if d.Panic != "" {
			j.v("direct", pc, "mapper-panic", fmt.Sprintf("%s mapper panicked on (%q, %q): %s", j.mapper, d.Prefix, d.Name, d.Panic), d)
			continue
		}
		here, pn := c10rt.SafeMap(m, d.Prefix, d.Name)
		if pn != "" || here != d.Out {
			j.v("direct:cross-process", pc, "nondeterministic", fmt.Sprintf("%s mapper (%q, %q): %q in the generated program, %q (%s) in the worker", j.mapper, d.Prefix, d.Name, d.Out, here, pn), d)
		}
	}
}

// ---------- program items ----------

type itemDesc struct {
	Class  string `json:"class"`
	Item   int    `json:"item"`
	Mapper string `json:"mapper"`
	Size   int    `json:"size,omitempty"`
}

func (j *judge) finish(id string, desc itemDesc, sig string) {
	core.Add("evaluations", j.evals)
	if len(j.viols) == 0 {
		if len(j.incon) > 0 {
			core.Result(core.R{ID: id, Verdict: core.Inconclusive, What: strings.Join(j.incon, " ;; "), Sig: sig})
			return
		}
		core.Result(core.R{ID: id, Verdict: core.Held, Sig: sig, Nontrivial: true})
		return
	}
	if len(j.incon) > 0 {
		fmt.Fprintf(os.Stderr, "%s: inconclusive observations besides violations: %v\n", id, j.incon)
	}
	groups := map[string][]viol{}
	var order []string
	for _, v := range j.viols {
		fp := fmt.Sprintf("%s/%s/%s/%s/%s", *prop, j.mapper, v.scenario, v.pclass, v.symptom)
		if _, ok := groups[fp]; !ok {
			order = append(order, fp)
		}
		groups[fp] = append(groups[fp], v)
	}
	sort.Strings(order)
	for i, fp := range order {
		vs := groups[fp]
		rid := id
		if i > 0 {
			rid = fmt.Sprintf("%s#%d", id, i)
			core.Begin(rid, desc)
		}
		var more []string
		for k, v := range vs {
			if k > 0 && k < 4 {
				more = append(more, v.what)
			}
		}
		core.Result(core.R{ID: rid, Verdict: core.Violated, FP: fp, What: fmt.Sprintf("%s (%d observations in this case)", vs[0].what, len(vs)),
			Witness: map[string]interface{}{"first": vs[0].witness, "more": more, "total_in_case": len(vs)}, Desc: desc, Sig: sig})
	}
}

// concRounds is the number of rounds of the concurrent phase per peer (192 requests per round).
const concRounds = 18

func runProgram(item, index int, harness, repo string) {
	size := 30
	p := c10gen.Generate(*seed, index, size, concRounds)
	desc := itemDesc{Class: "program", Item: item, Mapper: p.Mapper, Size: size}
	id := fmt.Sprintf("prog%03d", index)
	core.Begin(id, desc)
	j := &judge{mapper: p.Mapper}
	sig := fmt.Sprintf("program/%s/%d", p.Mapper, index)

	dir := newTmp()
	defer dropTmp(dir)
	write := func(rel, content string) {
		f := filepath.Join(dir, rel)
		os.MkdirAll(filepath.Dir(f), 0o755)
		if err := os.WriteFile(f, []byte(content), 0o644); err != nil {
			dropAllTmp()
			core.Fatalf("write %s: %v", f, err)
		}
	}
	write("go.mod", c10gen.GoMod(harness, repo))
	if b, err := os.ReadFile(filepath.Join(harness, "go.sum")); err == nil {
		write("go.sum", string(b))
	}
	nlines := 0
	for rel, src := range p.Files {
		write(rel, src)
		nlines += strings.Count(src, "\n")
	}
	t0 := time.Now()
	out, code, timedOut, err := runCmd(15*time.Minute, dir, goEnv(), "go", "build", "-tags", "verif", "-o", filepath.Join(dir, "prog"), ".")
	if err != nil || code != 0 || timedOut {
		saveProgram(p, "build_failed")
		dropAllTmp()
		core.Fatalf("go build of generated program %d failed (code %d, timeout %v, err %v): %s", index, code, timedOut, err, tail(string(out), 3000))
	}
	core.Max("build_ms_max", time.Since(t0).Milliseconds())
	core.Add("programs_built", 1)
	core.Add("generated_source_lines", int64(nlines))
	core.Add("generated_handlers", int64(p.NHandlers))

	repFile := filepath.Join(dir, "report.json")
	out, code, timedOut, err = runCmd(10*time.Minute, dir, goEnv(), filepath.Join(dir, "prog"), "-out", repFile)
	var rep c10rt.Report
	if b, e := os.ReadFile(repFile); e == nil {
		if e = json.Unmarshal(b, &rep); e != nil {
			rep = c10rt.Report{}
		}
	}
	if err != nil || code != 0 || timedOut || !rep.Complete {
		txt := string(out)
		switch {
		case timedOut:
			j.incon = append(j.incon, "generated program did not finish (watchdog)")
		case strings.Contains(txt, "panic:") || strings.Contains(txt, "fatal error:"):
			saveProgram(p, "crash")
			j.v("program", "", "child-crash", fmt.Sprintf("%s mapper: the generated program crashed: %s", p.Mapper, tail(txt, 600)), map[string]interface{}{"output": tail(txt, 4000)})
		case code == 1 && strings.Contains(txt, "conflict"):
			// Registrations planned as clash-free (with the same mapper function, in this process) were
			// refused. A loud refusal is not a violation by itself: the program could not be run.
			saveProgram(p, "unexpected_conflict")
			j.incon = append(j.incon, "a registration planned as clash-free was refused, the program could not run: "+tail(txt, 300))
		default:
			j.incon = append(j.incon, fmt.Sprintf("generated program failed: code %d err %v: %s", code, err, tail(txt, 400)))
		}
		// what the program reported before it died is still judged
		j.direct(p, &rep)
		for i, cs := range p.Collisions {
			if i < len(rep.Collisions) {
				j.collision(cs, rep.Collisions[i])
			}
		}
		j.finish(id, desc, sig)
		return
	}
	core.Add("programs_run", 1)
	if len(rep.Orphans) > 0 {
		j.incon = append(j.incon, fmt.Sprintf("%d handler invocations without a probe id, e.g. %+v", len(rep.Orphans), rep.Orphans[0]))
	}
	j.direct(p, &rep)
	for i, ps := range p.Peers {
		if i >= len(rep.Peers) {
			j.incon = append(j.incon, "peer missing in report")
			break
		}
		j.peer(i, ps, rep.Peers[i])
		core.Max("concurrent_max_handlers_in_flight", rep.Peers[i].MaxInFlight)
		core.Max("concurrent_max_invocations_of_one_handler_in_flight", rep.Peers[i].MaxInFlightSame)
		core.Add("concurrent_invocations_overlapping_same_handler", rep.Peers[i].OverlappedInvocs)
		if rep.Peers[i].ConcOps > 0 && rep.Peers[i].MaxInFlightSame < 2 {
			j.incon = append(j.incon, fmt.Sprintf("peer %d (%s): the concurrent phase never had two invocations of one handler in flight", i, ps.Class))
		}
		core.Add("registrations", int64(len(rep.Peers[i].Regs)))
		core.Distinct("peer_classes", p.Mapper+"/"+ps.Class)
	}
	for i, cs := range p.Collisions {
		if i >= len(rep.Collisions) {
			j.incon = append(j.incon, "collision missing in report")
			break
		}
		j.collision(cs, rep.Collisions[i])
	}
	if len(j.viols) > 0 {
		saveProgram(p, "violation")
	}
	if index < 2 {
		nprobes := 0
		for _, pr := range rep.Peers {
			nprobes += len(pr.Probes)
		}
		var regs []string
		for k, rr := range rep.Peers[0].Regs {
			if k < 6 {
				regs = append(regs, fmt.Sprintf("%s %v", rr.Kind, rr.Names))
			}
		}
		core.Sample(map[string]interface{}{"program": index, "mapper": p.Mapper, "handlers": p.NHandlers, "probes": nprobes,
			"collision_pairs": len(p.Collisions), "some_registrations": regs})
	}
	j.finish(id, desc, sig)
}

var saved = map[string]bool{}

// saveProgram keeps the source of a program that matters in the driver's out directory (cwd).
func saveProgram(p *c10gen.Program, why string) {
	if saved[why] {
		return
	}
	saved[why] = true
	d := fmt.Sprintf("prog%03d_%s", p.Index, why)
	for rel, src := range p.Files {
		f := filepath.Join(d, rel)
		os.MkdirAll(filepath.Dir(f), 0o755)
		os.WriteFile(f, []byte(src), 0o644)
	}
}

// ---------- in-process items: the mappers as functions ----------

func runInproc(item, chunk int, mapper string, n int) {
	desc := itemDesc{Class: "mapper-function", Item: item, Mapper: mapper}
	id := fmt.Sprintf("fn-%s-%03d", mapper, chunk)
	core.Begin(id, desc)
	j := &judge{mapper: mapper}
	m := c10rt.MapperFunc(mapper)
	eval := func(prefix, name string) (string, bool) {
		o, pn := c10rt.SafeMap(m, prefix, name)
		if pn != "" {
			j.v("direct", c10gen.Classify(name), "mapper-panic", fmt.Sprintf("%s mapper panicked on (%q, %q): %s", mapper, prefix, name, pn), map[string]string{"prefix": prefix, "name": name, "panic": pn})
			return "", false
		}
		return o, true
	}
	// the documented rows, verbatim, under documented prefixes
	chains := [][]string{nil, {"test"}, {"srv"}, {"test", "srv"}, {"group", "test", "cli"}}
	for _, ch := range chains {
		dp := c10gen.DocPrefix(mapper, ch)
		for _, row := range append(append([]c10gen.DocRow{}, c10gen.Table...), c10gen.Examples...) {
			j.evals++
			want := c10gen.DocJoin(mapper, dp, row)
			core.Distinct("nontrivial", mapper+"/doc:"+row.Ident+"/table")
			if got, ok := eval(dp, row.Ident); ok && got != want {
				j.v("table", "doc:"+row.Ident, "table-row-mismatch", fmt.Sprintf("%s mapper: (%q, %q) gives %q, the documentation gives %q", mapper, dp, row.Ident, got, want),
					map[string]string{"prefix": dp, "name": row.Ident, "got": got, "documented": want})
			}
		}
		// README API templates: struct Aaa + method XxZz, struct Bbb + method YyZz
		for _, pr := range [][2]string{{"Aaa", "XxZz"}, {"Bbb", "YyZz"}} {
			j.evals++
			var rows [2]c10gen.DocRow
			for _, e := range c10gen.Examples {
				if e.Ident == pr[0] {
					rows[0] = e
				}
				if e.Ident == pr[1] {
					rows[1] = e
				}
			}
			want := c10gen.DocJoin(mapper, c10gen.DocJoin(mapper, dp, rows[0]), rows[1])
			mid, ok := eval(dp, pr[0])
			if !ok {
				continue
			}
			if got, ok := eval(mid, pr[1]); ok && got != want {
				j.v("table", "doc:"+pr[0]+"."+pr[1], "table-row-mismatch", fmt.Sprintf("%s mapper: struct %s method %s under %q gives %q, the README gives %q", mapper, pr[0], pr[1], dp, got, want),
					map[string]string{"prefix": dp, "struct": pr[0], "method": pr[1], "got": got, "documented": want})
			}
		}
	}
	// determinism and totality over generated identifiers and arbitrary prefixes
	r := core.NewRand(*seed, int64(chunk), 77)
	type in struct{ p, n string }
	ins := make([]in, n)
	outs := make([]string, n)
	segs := []string{"", "/", ".", "_", "__", "a", "A", "Ab", "v1", "/x/y", "x.y", "..", "//", "ä", "Ö_x", "a b", "%", "\x00", "*", "Aa_Bb", "aa__bb"}
	for i := range ins {
		var pb strings.Builder
		for k := r.Intn(4); k > 0; k-- {
			pb.WriteString(segs[r.Intn(len(segs))])
			pb.WriteString(r.Pick("", "/", ".", "_"))
		}
		ins[i] = in{pb.String(), c10gen.RandIdent(r)}
		if r.Chance(1, 10) {
			ins[i].p = m("", ins[i].p) // a prefix the mapper produced itself
		}
	}
	for i, x := range ins {
		o, ok := eval(x.p, x.n)
		if !ok {
			continue
		}
		outs[i] = o
		core.Distinct("nontrivial", mapper+"/"+c10gen.Classify(x.n)+"/direct")
		if o2, ok := eval(x.p, x.n); ok && o2 != o {
			j.v("direct:sequential", c10gen.Classify(x.n), "nondeterministic", fmt.Sprintf("%s mapper (%q, %q): %q then %q", mapper, x.p, x.n, o, o2), x)
		}
	}
	var wg sync.WaitGroup
	var mu sync.Mutex
	for g := 0; g < 4; g++ {
		wg.Add(1)
		go func(g int) {
			defer wg.Done()
			for k := range ins {
				i := (k*7 + g*len(ins)/4) % len(ins)
				o, pn := c10rt.SafeMap(m, ins[i].p, ins[i].n)
				if pn == "" && o != outs[i] {
					mu.Lock()
					j.v("direct:concurrent", c10gen.Classify(ins[i].n), "nondeterministic", fmt.Sprintf("%s mapper (%q, %q): %q sequentially, %q under concurrent use", mapper, ins[i].p, ins[i].n, outs[i], o), ins[i])
					mu.Unlock()
				}
			}
		}(g)
	}
	wg.Wait()
	// the bulk sweep is reported separately so that the evaluation floor stays a floor on probes
	core.Add("mapper_function_evaluations", int64(6*len(ins)))
	if chunk == 0 {
		core.Sample(map[string]interface{}{"mapper_function": mapper, "inputs": len(ins), "e.g.": fmt.Sprintf("(%q, %q) -> %q", ins[0].p, ins[0].n, outs[0])})
	}
	j.finish(id, desc, "mapper-function/"+mapper)
}

// ---------- main ----------

func main() {
	flag.Parse()
	core.Prop = *prop
	bed.Init("OFF") // process globals set explicitly; the mappers are called as functions here, never through the global
	sweepStale()
	harness, repo := locate()

	sig := make(chan os.Signal, 1)
	signal.Notify(sig, syscall.SIGINT, syscall.SIGTERM, syscall.SIGQUIT)
	go func() {
		s := <-sig
		dropAllTmp()
		signal.Reset()
		if sn, ok := s.(syscall.Signal); ok {
			syscall.Kill(os.Getpid(), sn) // let the default action (goroutine dump for SIGQUIT) happen
			time.Sleep(2 * time.Second)
		}
		os.Exit(2)
	}()

	nprog, nfn, fnN := 2, 2, 4000
	if *tier == "thorough" {
		nprog, nfn, fnN = 40, 16, 25000
	}
	only := -1
	if *replay != "" {
		var f struct {
			Desc itemDesc `json:"desc"`
		}
		b, err := os.ReadFile(*replay)
		if err == nil {
			err = json.Unmarshal(b, &f)
		}
		if err != nil {
			core.Fatalf("replay file: %v", err)
		}
		only = f.Desc.Item
	}
	for item := 0; item < nprog+nfn; item++ {
		if only >= 0 {
			if item != only {
				continue
			}
		} else if item%*nbatch != *batch {
			continue
		}
		if item < nprog {
			runProgram(item, item, harness, repo)
		} else {
			k := item - nprog
			runInproc(item, k/2, []string{"http", "rpc"}[k%2], fnN)
		}
	}
	dropAllTmp()
	core.Finish()
	_ = io.Discard
}
