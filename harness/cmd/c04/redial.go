package main

// Calls that are written a second time after a redial ("automatically re-called once after a failure").
//
// A client session with redial enabled is dialed over loopback TCP through the harness forwarder. The
// server goes away (port down, connection killed), the session's own redial round fails and the session
// ends; then the server is reachable again and calls are issued on the same Session value: the first
// write fails, the writer redials and writes the call again. For those calls the property's "iff" is
// judged exactly as for every other call: OK iff the handler ran to completion, returned OK and the
// reply was decoded; otherwise the handler's status - provided the ONE connection that the forwarder
// saw after the outage is still alive at the end (then no reply can have been lost).

import (
	"fmt"
	"net"
	"sync"
	"sync/atomic"
	"time"

	erpc "github.com/henrylee2cn/erpc/v6"

	"verifharness/bed"
	"verifharness/core"
	"verifharness/fwd"
	"verifharness/protos"
	"verifharness/quiesce"
	"verifharness/tok"
)

type redialCell struct {
	Proto  string `json:"proto"`
	N      int    `json:"calls"`
	Budget int    `json:"redial_times"`
	Async  bool   `json:"async"`
	Kind   string `json:"kind"`
}

func redialCells(seed int64, tier string) {
	r := core.NewRand(seed, 77, 4, 13)
	var cells []redialCell
	protosUsed := []string{"raw", "json", "pb"}
	if tier == "thorough" {
		protosUsed = []string{"raw", "json", "pb", "thrift-binary", "http"}
	}
	for _, p := range protosUsed {
		for _, n := range []int{1, 4} {
			for _, budget := range []int{1, 3} {
				kinds := []string{"bytes", "plain", "json"}
				cells = append(cells, redialCell{p, n, budget, r.Intn(2) == 0, kinds[r.Intn(len(kinds))]})
			}
		}
	}
	if tier == "thorough" {
		cells = append(cells, cells...)
		cells = append(cells, cells...)
	}
	for i, c := range cells {
		runRedialCell(i, c)
	}
}

func runRedialCell(no int, c redialCell) {
	id := fmt.Sprintf("redial.%d", no)
	desc := map[string]interface{}{"class": "resent-after-redial", "cell": c}
	core.Begin(id, desc)
	core.Add("evaluations", 1)
	core.Distinct("nontrivial", fmt.Sprintf("resent-after-redial/%s/n%d/b%d/async=%v", c.Proto, c.N, c.Budget, c.Async))
	inconclusive := func(f string, a ...interface{}) {
		core.Result(core.R{ID: id, Verdict: core.Inconclusive, What: fmt.Sprintf(f, a...), Desc: desc})
	}
	pf := protos.ByName(c.Proto).Func
	srv := erpc.NewPeer(erpc.PeerConfig{}, vetoPlugin{})
	routes := map[string]string{"bytes": srv.RouteCallFunc(HBytes), "plain": srv.RouteCallFunc(HPlain), "json": srv.RouteCallFunc(HJson)}
	lis, err := net.Listen("tcp4", "127.0.0.1:0")
	if err != nil {
		inconclusive("listen: %v", err)
		return
	}
	var wg sync.WaitGroup
	wg.Add(1)
	go func() {
		defer wg.Done()
		for {
			conn, err := lis.Accept()
			if err != nil {
				return
			}
			go srv.ServeConn(conn, pf)
		}
	}()
	fw, err := fwd.New(lis.Addr().String())
	if err != nil {
		lis.Close()
		inconclusive("forwarder: %v", err)
		return
	}
	cli := erpc.NewPeer(erpc.PeerConfig{RedialTimes: int32(c.Budget), RedialInterval: 2 * time.Millisecond, DialTimeout: 5 * time.Second})
	defer func() {
		cli.Close()
		fw.Close()
		lis.Close()
		srv.Close()
		wg.Wait()
	}()
	sess, st := cli.Dial(fw.Addr(), pf)
	if !st.OK() {
		inconclusive("dial: %v", st)
		return
	}
	// warm-up call
	{
		cmd := command{Mode: "ok", ID: id + ".warm"}
		res := tok.NewResult(c.Kind)
		if st := sess.Call(routes[c.Kind], tok.Build(c.Kind, cmd.String(), ""), res, erpc.WithBodyCodec(tok.CodecID(c.Kind))).Status(); !st.OK() {
			inconclusive("warm-up call failed: %v", st)
			return
		}
	}
	// the server goes away; the session's own redial round fails and the session ends
	if err := fw.Down(); err != nil {
		inconclusive("forwarder down: %v", err)
		return
	}
	fw.KillAll()
	select {
	case <-sess.CloseNotify():
	case <-time.After(20 * time.Second):
		inconclusive("the session did not end after the outage (watchdog)")
		return
	}
	if q := quiesce.Wait(quiesce.Options{Timeout: 20 * time.Second}); !q.Quiescent {
		inconclusive("not quiescent after the outage")
		return
	}
	forwardsBefore := fw.Forwards()
	if err := fw.Up(); err != nil {
		inconclusive("forwarder up: %v", err)
		return
	}
	// the calls: issued together on the ended session
	type call struct {
		cmd    command
		res    interface{}
		c      erpc.CallCmd
		status protos.Triple
		ok     bool
		done   int32
	}
	calls := make([]*call, c.N)
	var cw sync.WaitGroup
	start := make(chan struct{})
	for i := range calls {
		k := &call{res: tok.NewResult(c.Kind)}
		k.cmd = command{Mode: "ok", ID: fmt.Sprintf("%s.c%d", id, i)}
		if i%2 == 1 {
			k.cmd = command{Mode: "status", ID: fmt.Sprintf("%s.c%d", id, i), Code: int32(1000 + i), Msg: "handler status " + k.cmd.ID, Cause: "because"}
		}
		calls[i] = k
		cw.Add(1)
		go func() {
			defer cw.Done()
			<-start
			body := tok.Build(c.Kind, k.cmd.String(), "")
			if c.Async {
				k.c = sess.AsyncCall(routes[c.Kind], body, k.res, make(chan erpc.CallCmd, 1), erpc.WithBodyCodec(tok.CodecID(c.Kind)))
			} else {
				k.c = sess.Call(routes[c.Kind], body, k.res, erpc.WithBodyCodec(tok.CodecID(c.Kind)))
			}
			if waitDone(k.c) {
				k.status = protos.StatusTriple(k.c.Status())
				k.ok = k.c.StatusOK()
				atomic.StoreInt32(&k.done, 1)
			}
		}()
	}
	close(start)
	cw.Wait()
	q := quiesce.Wait(quiesce.Options{Timeout: 20 * time.Second})
	if !q.Quiescent {
		inconclusive("not quiescent after the calls")
		return
	}
	newPipes := fw.Forwards() - forwardsBefore
	live := fw.Live()
	core.Add("redial_cells_run", 1)
	if newPipes != 1 || len(live) != 1 || !sess.Health() {
		// the writers redialed more than once (or the connection is gone again): replies may have been lost with a
		// connection the framework closed itself - not judged here (C13)
		core.Add("redial_cells_not_judged_more_than_one_connection", 1)
		core.Result(core.R{ID: id, Verdict: core.Inconclusive, What: fmt.Sprintf("%d connections after the outage, %d alive, healthy=%v: not judged", newPipes, len(live), sess.Health()), Desc: desc})
		return
	}
	held := true
	for _, k := range calls {
		o := getObs(k.cmd.ID)
		fail := func(symptom, what string) {
			held = false
			core.Result(core.R{ID: id, Verdict: core.Violated, FP: fmt.Sprintf("C04/%s/resent-after-redial/%s/%s", c.Proto, k.cmd.Mode, symptom), What: fmt.Sprintf("%s, call written again after a redial (%d call(s) together, RedialTimes=%d): %s", c.Proto, c.N, c.Budget, what),
				Witness: map[string]interface{}{"caller_status": fmt.Sprintf("%+q", k.status), "handler_entered": o.entered, "handler_completed": o.completed, "handler_status": fmt.Sprintf("%+q", o.triple)}, Desc: desc})
		}
		if atomic.LoadInt32(&k.done) == 0 {
			fail("caller-never-sees-a-status", "the call is incomplete at quiescence although the redialed connection is healthy")
			continue
		}
		core.Add("resent_calls_judged", 1)
		completed := atomic.LoadInt32(&o.completed) > 0
		if completed {
			core.Add("resent_calls_handled", 1)
		}
		rt, _, _ := tok.Decode(k.res)
		switch {
		case k.ok && !completed:
			fail("ok-without-handler-completion", "the caller sees OK although the handler did not run to completion")
		case k.ok && k.cmd.Mode == "status":
			fail("error-reported-as-ok", fmt.Sprintf("the handler returned %+q, the caller sees OK", o.triple))
		case k.ok && rt != "R:"+k.cmd.ID:
			fail("ok-wrong-result", fmt.Sprintf("caller OK but result token %q", rt))
		case !k.ok && completed && k.cmd.Mode == "ok":
			// the handler ran to completion and returned OK; its reply travelled over the one connection that is
			// still alive: the caller must see OK
			fail("ok-reported-as-error", fmt.Sprintf("the handler completed and returned OK (result token at the caller: %q), the only connection since the outage is still alive, and the caller sees %+q", rt, k.status))
		case !k.ok && completed && k.cmd.Mode == "status" && k.status != o.triple:
			fail("triple-differs", fmt.Sprintf("the handler returned %+q, the caller sees %+q", o.triple, k.status))
		}
	}
	if held {
		core.Result(core.R{ID: id, Verdict: core.Held})
	}
	_ = bed.WaitUntil
}
