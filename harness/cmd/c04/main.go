// Worker for C04: the caller sees OK iff the handler ran to completion, returned OK and the
// reply body was decoded into the caller's result; otherwise exactly the handler's status
// triple, or the framework rule that applies (404 / 400 / 500 / 102 / a vetoing plugin's status).
package main

import (
	"bytes"
	"context"
	"encoding/hex"
	"encoding/json"
	"flag"
	"fmt"
	"strconv"
	"strings"
	"sync/atomic"
	"time"

	erpc "github.com/henrylee2cn/erpc/v6"
	"github.com/henrylee2cn/erpc/v6/codec"
	"github.com/henrylee2cn/erpc/v6/proto/pbproto/pb"

	"verifharness/bed"
	"verifharness/core"
	"verifharness/protos"
	"verifharness/quiesce"
	"verifharness/tok"
	"verifharness/wire"
)

var (
	prop   = flag.String("prop", "C04", "")
	tier   = flag.String("tier", "quick", "")
	seed   = flag.Int64("seed", 1, "")
	batch  = flag.Int("batch", 0, "")
	nbatch = flag.Int("nbatch", 1, "")
	replay = flag.String("replay", "", "")
)

// command carried in the request body: mode;code;msghex;causehex;id
type command struct {
	Mode  string
	Code  int32
	Msg   string
	Cause string
	ID    string
}

func (c command) String() string {
	return fmt.Sprintf("%s;%d;%s;%s;%s", c.Mode, c.Code, hex.EncodeToString([]byte(c.Msg)), hex.EncodeToString([]byte(c.Cause)), c.ID)
}

func parseCommand(s string) (command, bool) {
	p := strings.Split(s, ";")
	if len(p) != 5 {
		return command{}, false
	}
	code, err := strconv.ParseInt(p[1], 10, 32)
	m, e1 := hex.DecodeString(p[2])
	c, e2 := hex.DecodeString(p[3])
	if err != nil || e1 != nil || e2 != nil {
		return command{}, false
	}
	return command{p[0], int32(code), string(m), string(c), p[4]}, true
}

// what the handlers observed, keyed by command id
type obs struct {
	entered   int32
	completed int32
	triple    protos.Triple
}

var observed = map[string]*obs{}
var obsMu = make(chan struct{}, 1)

func getObs(id string) *obs {
	obsMu <- struct{}{}
	o := observed[id]
	if o == nil {
		o = &obs{}
		observed[id] = o
	}
	<-obsMu
	return o
}

var nilPtr *command

func handle(kind string, arg interface{}) (interface{}, *erpc.Status) {
	s, _, _ := tok.Decode(arg)
	cmd, ok := parseCommand(s)
	if !ok {
		return nil, erpc.NewStatus(597, "harness: unparsable command", s)
	}
	o := getObs(cmd.ID)
	atomic.AddInt32(&o.entered, 1)
	switch cmd.Mode {
	case "status":
		st := erpc.NewStatus(cmd.Code, cmd.Msg, causeArg(cmd.Cause))
		o.triple = protos.StatusTriple(st)
		atomic.AddInt32(&o.completed, 1)
		return nil, st
	case "panic-string":
		panic("harness panic " + cmd.ID)
	case "panic-error":
		panic(fmt.Errorf("harness error panic %s", cmd.ID))
	case "panic-status":
		panic(erpc.NewStatus(777, "panic status", "x"))
	case "panic-nil":
		_ = nilPtr.Mode
	}
	atomic.AddInt32(&o.completed, 1)
	return tok.Build(kind, "R:"+cmd.ID, "result-of-"+cmd.ID), nil
}

// waitDone waits for the call; false when the process is quiescent with the call still incomplete.
func waitDone(c erpc.CallCmd) bool {
	for {
		select {
		case <-c.Done():
			return true
		case <-time.After(2 * time.Second):
		}
		q := quiesce.Wait(quiesce.Options{Timeout: 10 * time.Second})
		select {
		case <-c.Done():
			return true
		default:
		}
		if q.Quiescent {
			return false
		}
	}
}

func causeArg(c string) interface{} {
	if c == "" {
		return nil
	}
	return c
}

func HBytes(ctx erpc.CallCtx, arg *[]byte) ([]byte, *erpc.Status) {
	r, s := handle("bytes", arg)
	if s != nil || r == nil {
		return nil, s
	}
	return r.([]byte), nil
}
func HPlain(ctx erpc.CallCtx, arg *string) (*string, *erpc.Status) {
	r, s := handle("plain", arg)
	if s != nil || r == nil {
		return nil, s
	}
	return r.(*string), nil
}
func HJson(ctx erpc.CallCtx, arg *tok.Arg) (*tok.Arg, *erpc.Status) {
	r, s := handle("json", arg)
	if s != nil || r == nil {
		return nil, s
	}
	return r.(*tok.Arg), nil
}
func HForm(ctx erpc.CallCtx, arg *tok.Arg) (*tok.Arg, *erpc.Status) {
	r, s := handle("form", arg)
	if s != nil || r == nil {
		return nil, s
	}
	return r.(*tok.Arg), nil
}
func HXml(ctx erpc.CallCtx, arg *tok.Arg) (*tok.Arg, *erpc.Status) {
	r, s := handle("xml", arg)
	if s != nil || r == nil {
		return nil, s
	}
	return r.(*tok.Arg), nil
}
func HPb(ctx erpc.CallCtx, arg *pb.Payload) (*pb.Payload, *erpc.Status) {
	r, s := handle("pb", arg)
	if s != nil || r == nil {
		return nil, s
	}
	return r.(*pb.Payload), nil
}
func HThrift(ctx erpc.CallCtx, arg *wire.TStruct) (*wire.TStruct, *erpc.Status) {
	r, s := handle("thrift", arg)
	if s != nil || r == nil {
		return nil, s
	}
	return r.(*wire.TStruct), nil
}

// HRaw replies with the request bytes as a JSON-labelled body (lets the harness choose the reply bytes exactly).
func HRaw(ctx erpc.CallCtx, arg *[]byte) ([]byte, *erpc.Status) {
	ctx.SetBodyCodec(codec.ID_JSON)
	return append([]byte(nil), (*arg)...), nil
}

// HBig answers a small request with a large, highly compressible reply (the request names the size).
func HBig(ctx erpc.CallCtx, arg *[]byte) ([]byte, *erpc.Status) {
	n, _ := strconv.Atoi(string(*arg))
	o := getObs(string(ctx.PeekMeta("Bigid")))
	atomic.AddInt32(&o.entered, 1)
	atomic.AddInt32(&o.completed, 1)
	return bytes.Repeat([]byte{'0'}, n), nil
}

// HRawForm answers with the request bytes as a form-encoded reply.
func HRawForm(ctx erpc.CallCtx, arg *[]byte) ([]byte, *erpc.Status) {
	ctx.SetBodyCodec(codec.ID_FORM)
	return append([]byte(nil), (*arg)...), nil
}

// formNums is a caller's result with number fields of every width (form codec).
type formNums struct {
	Tok string `form:"tok"`
	I8  int8   `form:"i8"`
	U8  uint8  `form:"u8"`
	I16 int16  `form:"i16"`
	U16 uint16 `form:"u16"`
	I32 int32  `form:"i32"`
	U32 uint32 `form:"u32"`
}

// formNumberReply builds a form reply with one number field at / beyond its range; ok tells whether the text denotes a
// value of that width (decided by strconv with the exact bit size, independent of the codec under test).
func formNumberReply(idx int) (body string, ok bool) {
	type fld struct {
		key    string
		bits   int
		signed bool
	}
	f := []fld{{"i8", 8, true}, {"u8", 8, false}, {"i16", 16, true}, {"u16", 16, false}, {"i32", 32, true}, {"u32", 32, false}}[idx%6]
	var vals []string
	if f.signed {
		max := int64(1)<<uint(f.bits-1) - 1
		vals = []string{fmt.Sprint(max), fmt.Sprint(max + 1), fmt.Sprint(-max - 1), fmt.Sprint(-max - 2), fmt.Sprint(int64(1) << uint(f.bits)), "0", "-1"}
	} else {
		max := uint64(1)<<uint(f.bits) - 1
		vals = []string{fmt.Sprint(max), fmt.Sprint(max + 1), fmt.Sprint(max + 256), fmt.Sprint(uint64(1) << 33), "0", "-1"}
	}
	v := vals[(idx/6)%len(vals)]
	var err error
	if f.signed {
		_, err = strconv.ParseInt(v, 10, f.bits)
	} else {
		_, err = strconv.ParseUint(v, 10, f.bits)
	}
	return "tok=a&" + f.key + "=" + v, err == nil
}

var replyBodies = []string{`{"tok":"a","pay":"b"}`, `{"tok":"a"}}`, `{"tok":"a"} x`, `{"tok":"a"}{"tok":"b"}`, `{"tok":"a"`, `{"tok":"a"}]`, ` {"tok":"a"} `, `{"tok":"a"}` + "\n\n", `nul`, `{"tok":"a"},`}

// veto plugin: vetoes calls carrying metadata Veto=<code>;<msghex>;<causehex> after the body was read.
type vetoPlugin struct{}

func (vetoPlugin) Name() string { return "c04-veto" }
func (vetoPlugin) PostReadCallHeader(ctx erpc.ReadCtx) *erpc.Status {
	return vetoAt(ctx, "PostReadCallHeader")
}
func (vetoPlugin) PreReadCallBody(ctx erpc.ReadCtx) *erpc.Status {
	return vetoAt(ctx, "PreReadCallBody")
}
func (vetoPlugin) PostReadCallBody(ctx erpc.ReadCtx) *erpc.Status {
	return vetoAt(ctx, "PostReadCallBody")
}

func vetoAt(ctx erpc.ReadCtx, stage string) *erpc.Status {
	v := string(ctx.PeekMeta("Veto"))
	if v == "" || string(ctx.PeekMeta("Vetoat")) != stage {
		return nil
	}
	cmd, ok := parseCommand("veto;" + v + ";x")
	if !ok {
		return nil
	}
	return erpc.NewStatus(cmd.Code, cmd.Msg, causeArg(cmd.Cause))
}

// mismatching result receivers per kind
type formInt struct {
	Tok int `form:"tok"`
}
type xmlInt struct {
	Tok int `xml:"tok"`
}

func mismatchResult(kind string, r *core.Rand) interface{} {
	switch kind {
	case "json":
		switch r.Intn(3) {
		case 0:
			return new(int)
		case 1:
			return new([]int)
		}
		return &struct {
			Tok int `json:"tok"`
		}{}
	case "form":
		return &formInt{}
	case "xml":
		return &xmlInt{}
	case "plain":
		return new(int)
	}
	return nil
}

func newLike(v interface{}) interface{} {
	switch v.(type) {
	case *int:
		return new(int)
	case *[]int:
		return new([]int)
	case *formInt:
		return &formInt{}
	case *xmlInt:
		return &xmlInt{}
	}
	return &struct {
		Tok int `json:"tok"`
	}{}
}

type genStatus struct {
	class string
	t     protos.Triple
}

func genText(class string, r *core.Rand) string {
	n := []int{1, 2, 17, 255, 256, 1000}[r.Intn(6)]
	switch class {
	case "empty":
		return ""
	case "ascii":
		b := make([]byte, n)
		for i := range b {
			b[i] = "abcdefghijklmnopqrstuvwxyz ABC012"[r.Intn(33)]
		}
		return string(b)
	case "punct":
		b := make([]byte, n)
		for i := range b {
			b[i] = `&=%+"\'<>/?#;:,.- ~`[r.Intn(19)]
		}
		return string(b)
	case "ctrl":
		b := make([]byte, n)
		for i := range b {
			b[i] = byte(r.Intn(32))
		}
		return string(b)
	case "utf8":
		rs := []rune("äßπЖ中文🙂é")
		var sb strings.Builder
		for sb.Len() < n {
			sb.WriteRune(rs[r.Intn(len(rs))])
		}
		return sb.String()
	case "bytes":
		return string(r.Bytes(n))
	case "long":
		return strings.Repeat("L", 20000)
	}
	return ""
}

var textClasses = []string{"empty", "ascii", "punct", "ctrl", "utf8", "bytes", "long"}
var codes = []int32{-1 << 31, -1, 1, 99, 100, 102, 104, 199, 200, 299, 400, 404, 500, 502, 1<<31 - 1}

type transport struct {
	name string
	ws   bool
	p    protos.P
}

func kindsFor(t transport) []string {
	switch {
	case t.p.Struct:
		return []string{"thrift"}
	case t.p.HTTP:
		return []string{"bytes", "json", "form", "xml", "plain", "pb"}
	}
	return []string{"bytes", "json", "form", "xml", "plain", "pb", "thrift"}
}

// keptCmd is a completed call whose command object the caller still holds.
type keptCmd struct {
	c                     erpc.CallCmd
	got                   protos.Triple
	id, tname, mode, kind string
	desc                  map[string]interface{}
}

var kept []keptCmd

// recheckKept reads the status of every kept command again: it is what was observed at completion.
func recheckKept() {
	for _, k := range kept {
		core.Add("statuses_reinspected_later", 1)
		now := protos.StatusTriple(k.c.Status())
		_, st2 := k.c.Reply()
		now2 := protos.StatusTriple(st2)
		if now != k.got || now2 != k.got {
			id := k.id + ".later"
			core.Begin(id, k.desc)
			core.Result(core.R{ID: id, Verdict: core.Violated, FP: fmt.Sprintf("C04/%s/%s/%s/status-changed-after-completion", k.tname, k.mode, k.kind),
				What:    fmt.Sprintf("%s %s %s: the completed call reported %+q; after further messages were read the same command reports %+q", k.tname, k.mode, k.kind, k.got, now),
				Witness: map[string]interface{}{"at_completion": fmt.Sprintf("%+q", k.got), "later_Status": fmt.Sprintf("%+q", now), "later_Reply": fmt.Sprintf("%+q", now2)}, Desc: k.desc})
		}
	}
	kept = kept[:0]
}

func main() {
	flag.Parse()
	core.Prop = *prop
	wire.RegFilters()
	bed.Init("OFF")
	ts := []transport{}
	for _, n := range []string{"raw", "json", "pb", "thrift-binary", "thrift-struct", "http"} {
		ts = append(ts, transport{n, false, protos.ByName(n)})
	}
	ts = append(ts, transport{"ws-json", true, protos.ByName("ws-json")}, transport{"ws-pb", true, protos.ByName("ws-pb")})

	perMode := 6
	if *tier == "thorough" {
		perMode = 120
	}
	caseNo := 0
	for ti, t := range ts {
		if *nbatch >= len(ts) {
			if ti != *batch%len(ts) {
				continue
			}
		} else if ti%*nbatch != *batch {
			continue
		}
		r := core.NewRand(*seed, int64(*batch), int64(ti), 4)
		srv := erpc.NewPeer(erpc.PeerConfig{}, vetoPlugin{})
		cli := erpc.NewPeer(erpc.PeerConfig{})
		routes := map[string]string{}
		kinds := []string{"bytes", "plain", "json", "form", "xml", "pb", "thrift"}
		for i, f := range []interface{}{HBytes, HPlain, HJson, HForm, HXml, HPb, HThrift} {
			routes[kinds[i]] = srv.RouteCallFunc(f)
		}
		routes["raw-reply"] = srv.RouteCallFunc(HRaw)
		routes["raw-reply-form"] = srv.RouteCallFunc(HRawForm)
		routes["big-reply"] = srv.RouteCallFunc(HBig)
		var link *bed.Link
		var err error
		if t.ws {
			link, err = bed.ConnectWS(cli, srv, t.p.Func, nil)
		} else {
			link, err = bed.Connect(cli, srv, t.p.Func, t.p.Func, nil)
		}
		if err != nil {
			core.Fatalf("connect %s: %v", t.name, err)
		}
		reconnect := func() {
			if link.A.Health() {
				return
			}
			if t.ws {
				link, err = bed.ConnectWS(cli, srv, t.p.Func, nil)
			} else {
				link, err = bed.Connect(cli, srv, t.p.Func, t.p.Func, nil)
			}
			if err != nil {
				core.Fatalf("reconnect %s: %v", t.name, err)
			}
			core.Add("reconnects", 1)
		}
		ks := kindsFor(t)
		modes := []string{"reply-refused-by-filter", "reply-form", "reply-bytes", "status", "ok", "mismatch", "panic-string", "panic-error", "panic-status", "panic-nil", "unknown-route", "bad-body", "veto", "closed", "ctx-dead"}
		for _, mode := range modes {
			nk := perMode
			if mode == "reply-form" {
				nk = 42
			}
			if mode == "reply-refused-by-filter" {
				// the handler's reply travels through the caller's gzip pipe and inflates beyond the caller's unpack limit
				// (= message size limit): the caller's filter refuses it. The call completes - not OK - on a connection that
				// stays up; it must not stay pending. The limit is process-global: set for these calls only.
				if !t.p.Pipe || t.p.Struct {
					continue
				}
				for k := 0; k < 3; k++ {
					caseNo++
					id := fmt.Sprintf("b%d.%s.%d", *batch, t.name, caseNo)
					pipe := []string{"z", "g"}[k%2]
					desc := map[string]interface{}{"class": mode, "transport": t.name, "kind": "bytes", "value_class": "pipe=" + pipe}
					core.Add("evaluations", 1)
					core.Distinct("nontrivial", t.name+"/"+mode+"/bytes/pipe="+pipe)
					core.Begin(id, desc)
					reconnect()
					const lim = 64 << 10
					erpc.SetReadLimit(lim)
					var res []byte
					c := link.A.AsyncCall(routes["big-reply"], []byte(strconv.Itoa(lim*3+k)), &res, make(chan erpc.CallCmd, 1),
						erpc.WithBodyCodec(codec.ID_PLAIN), erpc.WithXferPipe([]byte(pipe)...), erpc.WithSetMeta("Bigid", id))
					done := waitDone(c)
					erpc.SetReadLimit(0)
					o := getObs(id)
					switch {
					case !done && atomic.LoadInt32(&o.completed) > 0:
						// whether the caller's session stayed up or dropped the connection over the refused reply: nothing runs any
						// more and the caller has neither OK nor any status
						core.Result(core.R{ID: id, Verdict: core.Violated, FP: fmt.Sprintf("C04/%s/%s/bytes/caller-never-sees-a-status", t.name, mode),
							What: fmt.Sprintf("%s %s: the handler answered, the caller's filter refused the reply, and the call is incomplete at quiescence (caller session healthy: %v, server session healthy: %v)", t.name, mode, link.A.Health(), link.B.Health()), Desc: desc})
						link.CA.Sever(false)
						bed.WaitUntil(5*time.Second, func() bool { return !link.A.Health() })
						link.A.Close()
					case !done:
						core.Result(core.R{ID: id, Verdict: core.Inconclusive, What: fmt.Sprintf("call incomplete at quiescence (caller healthy %v, server healthy %v, handler completed %d)", link.A.Health(), link.B.Health(), atomic.LoadInt32(&o.completed)), Desc: desc})
						link.CA.Sever(false)
						bed.WaitUntil(5*time.Second, func() bool { return !link.A.Health() })
						link.A.Close()
					case c.StatusOK() && len(res) != lim*3+k:
						core.Result(core.R{ID: id, Verdict: core.Violated, FP: fmt.Sprintf("C04/%s/%s/bytes/undecodable-reply-reported-ok", t.name, mode),
							What: fmt.Sprintf("%s %s: the caller sees OK with a result of %d bytes, the handler returned %d", t.name, mode, len(res), lim*3+k), Desc: desc})
					default:
						// refused (not OK), or - where the transport's own framing lets the reply through - delivered in full
						core.Add("replies_refused_by_the_callers_filter", 1)
						core.Result(core.R{ID: id, Verdict: core.Held})
					}
				}
				continue
			}
			for k := 0; k < nk; k++ {
				caseNo++
				kind := ks[r.Intn(len(ks))]
				id := fmt.Sprintf("b%d.%s.%d", *batch, t.name, caseNo)
				cmd := command{Mode: mode, ID: id}
				class := "-"
				var exp *protos.Triple // expected caller triple; nil = expect OK
				expCodeMsgOnly := false
				var result interface{} = tok.NewResult(kind)
				route := routes[kind]
				var settings []erpc.MessageSetting
				var body interface{}
				predictedDecodable := true
				switch mode {
				case "reply-bytes":
					// the reply body is chosen byte for byte; whether it is a JSON document is decided by encoding/json
					// itself (independent of the framework's codec)
					if t.p.Struct {
						continue
					}
					kind = "json"
					rb := replyBodies[r.Intn(len(replyBodies))]
					class = fmt.Sprintf("%q", rb)
					route = routes["raw-reply"]
					body = []byte(rb)
					result = new(tok.Arg)
					predictedDecodable = json.Valid([]byte(rb)) && json.Unmarshal([]byte(rb), new(tok.Arg)) == nil
				case "reply-form":
					// a form-encoded reply with one number at / beyond the range of the caller's field (all 6 fields x 7 values)
					if t.p.Struct {
						continue
					}
					var rb string
					rb, predictedDecodable = formNumberReply(k)
					kind = "form"
					class = fmt.Sprintf("%q", rb)
					route = routes["raw-reply-form"]
					body = []byte(rb)
					result = new(formNums)
				case "status":
					class = textClasses[r.Intn(len(textClasses))]
					if t.p.HTTP && (class == "bytes" || class == "ctrl") {
						class = "utf8" // http carries the status as JSON text
					}
					cmd.Code = codes[r.Intn(len(codes))]
					switch r.Intn(3) {
					case 0:
						cmd.Msg = genText(class, r)
					case 1:
						cmd.Cause = genText(class, r)
					default:
						cmd.Msg, cmd.Cause = genText(class, r), genText(class, r)
					}
					tr := protos.StatusTriple(erpc.NewStatus(cmd.Code, cmd.Msg, causeArg(cmd.Cause)))
					exp = &tr
				case "ok":
					// the caller may wish a body codec for the reply: a registered one is used (the struct kinds can be carried
					// by each text codec), an unregistered wish is ignored - either way the call is OK with the handler's result
					switch r.Intn(3) {
					case 0:
						a := []byte{1, 'q', 250}[r.Intn(3)]
						settings = append(settings, erpc.WithAcceptBodyCodec(a))
						class = fmt.Sprintf("accept-unregistered-%d", a)
					case 1:
						if kind == "json" || kind == "form" || kind == "xml" {
							a := []byte{codec.ID_JSON, codec.ID_FORM, codec.ID_XML}[r.Intn(3)]
							settings = append(settings, erpc.WithAcceptBodyCodec(a))
							class = fmt.Sprintf("accept-%c", a)
						}
					}
				case "mismatch":
					mr := mismatchResult(kind, r)
					if mr == nil {
						continue
					}
					result = mr
					// independent prediction: can the same codec decode the handler's result bytes into this type?
					hb, e1 := codec.Marshal(tok.CodecID(kind), tok.Build(kind, "R:"+id, "result-of-"+id))
					if e1 != nil {
						continue
					}
					predictedDecodable = codec.Unmarshal(tok.CodecID(kind), hb, newLike(mr)) == nil
					class = fmt.Sprintf("%T", mr)
				case "panic-string", "panic-error", "panic-status", "panic-nil":
					exp = &protos.Triple{Code: erpc.CodeInternalServerError, Msg: erpc.CodeText(erpc.CodeInternalServerError)}
					expCodeMsgOnly = true
				case "unknown-route":
					route = "/no/such/route_" + id
					exp = &protos.Triple{Code: erpc.CodeNotFound, Msg: erpc.CodeText(erpc.CodeNotFound)}
					expCodeMsgOnly = true
				case "bad-body":
					if kind == "bytes" || kind == "plain" || kind == "thrift" || kind == "pb" {
						kind = "json"
						if t.p.Struct {
							continue
						}
						route = routes[kind]
						result = tok.NewResult(kind)
					}
					body = []byte(map[string]string{"json": []string{`{"tok": [broken`, `{"tok":"a"}}`, `{"tok":"a"} x`, `{"tok":"a"}{"tok":"b"}`}[r.Intn(4)], "form": "%zz=%%%", "xml": "<Arg><tok>unterminated"}[kind])
					exp = &protos.Triple{Code: erpc.CodeBadMessage, Msg: erpc.CodeText(erpc.CodeBadMessage)}
					expCodeMsgOnly = true
				case "veto":
					class = textClasses[r.Intn(4)]
					vc := command{Code: append([]int32{405, 405}, codes...)[r.Intn(len(codes)+2)], Msg: genText(class, r), Cause: genText("ascii", r)}
					stage := []string{"PostReadCallHeader", "PreReadCallBody", "PostReadCallBody"}[r.Intn(3)]
					if t.p.Struct || t.p.HTTP && stage == "PostReadCallHeader" {
						stage = "PostReadCallBody"
					}
					class = class + "@" + stage
					settings = append(settings, erpc.WithSetMeta("Vetoat", stage))
					settings = append(settings, erpc.WithSetMeta("Veto", fmt.Sprintf("%d;%s;%s", vc.Code, hex.EncodeToString([]byte(vc.Msg)), hex.EncodeToString([]byte(vc.Cause)))))
					tr := protos.StatusTriple(erpc.NewStatus(vc.Code, vc.Msg, causeArg(vc.Cause)))
					exp = &tr
				case "closed":
					exp = &protos.Triple{Code: erpc.CodeConnClosed, Msg: erpc.CodeText(erpc.CodeConnClosed)}
					expCodeMsgOnly = true
				case "ctx-dead":
					// the call is issued with a context that is already cancelled / past its deadline: whatever the framework
					// does with it, the caller sees OK only if the handler ran to completion (judged by the general clause below)
					if r.Intn(2) == 0 {
						cctx, cancel := context.WithCancel(context.Background())
						cancel()
						settings = append(settings, erpc.WithContext(cctx))
						class = "cancelled"
					} else {
						dctx, cancel := context.WithDeadline(context.Background(), time.Now().Add(-time.Second))
						defer cancel()
						settings = append(settings, erpc.WithContext(dctx))
						class = "deadline-passed"
					}
				}
				if body == nil {
					body = tok.Build(kind, cmd.String(), "")
				}
				// a caller that does not want the result passes no receiver (as the heartbeat ping does): the status it
				// sees is the same
				if exp != nil && mode != "closed" && r.Intn(4) == 0 {
					result = nil
					class += "|no-result-receiver"
				}
				// some calls go through a transfer-filter pipe (the reply inherits it)
				if t.p.Pipe && mode != "closed" && r.Intn(3) == 0 {
					pipes := []string{"z", "m", "mz"}
					if t.p.HTTP {
						pipes = []string{"z", "g"}
					}
					pp := pipes[r.Intn(len(pipes))]
					settings = append(settings, erpc.WithXferPipe([]byte(pp)...))
					class += "|pipe=" + pp
				}
				if mode == "reply-bytes" || mode == "reply-form" {
					settings = append(settings, erpc.WithBodyCodec(codec.ID_PLAIN))
				} else {
					settings = append(settings, erpc.WithBodyCodec(tok.CodecID(kind)))
				}
				reconnect()
				sess := link.A
				if mode == "closed" {
					sess.Close()
				}
				desc := map[string]interface{}{"class": mode, "transport": t.name, "kind": kind, "value_class": class, "command": cmd.String()}
				core.Add("evaluations", 1)
				core.Distinct("nontrivial", t.name+"/"+mode+"/"+kind+"/"+class)
				if caseNo%97 == 1 {
					core.Sample(desc)
				}
				core.Begin(id, desc)
				c := sess.AsyncCall(route, body, result, make(chan erpc.CallCmd, 1), settings...)
				if !waitDone(c) {
					core.Add("calls_stuck", 1)
					oo := getObs(id)
					if link.A.Health() && link.B.Health() && (atomic.LoadInt32(&oo.completed) > 0 || mode != "ok" && mode != "status" && mode != "mismatch" && mode != "reply-bytes" && mode != "reply-form") {
						// the request was dealt with, both ends are healthy, nothing runs any more - and the caller never
						// observes any status: neither OK nor the status that applies
						core.Result(core.R{ID: id, Verdict: core.Violated, FP: fmt.Sprintf("C04/%s/%s/%s/caller-never-sees-a-status", t.name, mode, kind),
							What: t.name + " " + mode + " " + kind + " (" + class + "): the call is incomplete at quiescence although the connection is healthy on both sides", Desc: desc})
					} else {
						// a call cut off by a dead connection is C02's business; here the case cannot be judged
						core.Result(core.R{ID: id, Verdict: core.Inconclusive, What: "call incomplete at quiescence", Desc: desc})
					}
					link.CA.Sever(false)
					bed.WaitUntil(5*time.Second, func() bool { return !link.A.Health() })
					link.A.Close()
					continue
				}
				got := protos.StatusTriple(c.Status())
				o := getObs(id)
				held := true
				fail := func(symptom, what string) {
					held = false
					core.Result(core.R{ID: id, Verdict: core.Violated, FP: fmt.Sprintf("C04/%s/%s/%s/%s", t.name, mode, kind, symptom), What: t.name + " " + mode + " " + kind + ": " + what,
						Witness: map[string]interface{}{"caller_status": fmt.Sprintf("%+q", got), "handler_entered": o.entered, "handler_completed": o.completed, "handler_status": fmt.Sprintf("%+q", o.triple)}, Desc: desc})
				}
				switch {
				case mode == "ok":
					if !c.StatusOK() {
						fail("ok-reported-as-error", fmt.Sprintf("handler returned OK and the result is decodable, caller got %+q", got))
					} else if rt, _, _ := tok.Decode(result); rt != "R:"+id {
						fail("ok-wrong-result", fmt.Sprintf("caller OK but result token %q", rt))
					}
				case mode == "reply-bytes" || mode == "reply-form":
					if predictedDecodable && !c.StatusOK() {
						fail("decodable-reported-as-error", fmt.Sprintf("reply body %s is a JSON document for the result type, caller got %+q", class, got))
					} else if !predictedDecodable && c.StatusOK() {
						fail("undecodable-reply-reported-ok", fmt.Sprintf("reply body %s is not a JSON document, yet the caller sees OK (result %+v)", class, result))
					}
				case mode == "mismatch":
					if predictedDecodable {
						if !c.StatusOK() {
							fail("decodable-reported-as-error", fmt.Sprintf("result decodable into %s by the codec itself, caller got %+q", class, got))
						}
					} else if c.StatusOK() {
						fail("undecodable-reply-reported-ok", fmt.Sprintf("reply body cannot be decoded into %s, yet the caller sees OK", class))
					}
				case exp != nil:
					if c.StatusOK() {
						fail("error-reported-as-ok", fmt.Sprintf("expected %+q, caller sees OK", *exp))
					} else if got.Code != exp.Code || got.Msg != exp.Msg || (!expCodeMsgOnly && got.Cause != exp.Cause) {
						sym := "triple-differs"
						if got.Code != exp.Code {
							sym = "code-differs"
						}
						fail(sym, fmt.Sprintf("expected %+q got %+q", *exp, got))
					}
				}
				if held && mode != "reply-bytes" && mode != "reply-form" && c.StatusOK() && atomic.LoadInt32(&o.completed) == 0 { // (the raw-reply handler is not an observed one)
					fail("ok-without-handler-completion", "the caller sees OK although the handler did not run to completion")
				}
				if mode == "bad-body" && atomic.LoadInt32(&o.entered) > 0 {
					fail("bad-body-handler-ran", "handler invoked although the request body is not decodable")
				}
				if mode == "veto" && atomic.LoadInt32(&o.entered) > 0 {
					fail("veto-handler-ran", "handler invoked although a pre-handler hook vetoed")
				}
				if held {
					core.Result(core.R{ID: id, Verdict: core.Held})
				}
				// the completed command is kept, as a caller keeps a batch of AsyncCall results or logs a status later:
				// what it reports must not change while further messages are read by the process
				kept = append(kept, keptCmd{c, got, id, t.name, mode, kind, desc})
				if len(kept) >= 48 {
					recheckKept()
				}
			}
		}
		recheckKept()
		cli.Close()
		srv.Close()
	}
	if *batch == *nbatch-1 {
		redialCells(*seed, *tier)
	}
	core.Finish()
}
