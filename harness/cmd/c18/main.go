// Worker for C18: the overload plug-in never admits more than its connection and rate limits.
//
// Three engines:
//
//	conn  real peers over in-memory connections, histories of connect / reject / close / cut /
//	      Update(limit), sequential (quiescence after every step) and 16-way concurrent. A
//	      recording plug-in placed AFTER the overloader in accept order counts a session in, one
//	      placed BEFORE it in disconnect order counts it out, so the monitor can only under-count.
//	lin   the plug-in's exported PostAccept / PostDisconnect driven directly from 16 goroutines;
//	      the take/release history is checked with porcupine against a counting semaphore in
//	      which a refusal is always legal and a successful take only if count < N.
//	rate  QPS limit in logical time: admitted (passed the overloader's header hook) versus
//	      capacity + ticks*(once+1), ticks read from overloader.VerifTicks() after the count.
package main

import (
	"encoding/json"
	"flag"
	"fmt"
	"os"
	"runtime"
	"sort"
	"strings"
	"sync"
	"sync/atomic"
	"time"

	"github.com/anishathalye/porcupine"
	erpc "github.com/henrylee2cn/erpc/v6"
	"github.com/henrylee2cn/erpc/v6/plugin/overloader"

	"verifharness/bed"
	"verifharness/core"
	"verifharness/lin"
	"verifharness/memconn"
	"verifharness/quiesce"
	"verifharness/wire"
)

var (
	prop   = flag.String("prop", "C18", "")
	tier   = flag.String("tier", "quick", "")
	seed   = flag.Int64("seed", 1, "")
	batch  = flag.Int("batch", 0, "")
	nbatch = flag.Int("nbatch", 1, "")
	replay = flag.String("replay", "", "")
)

type discard struct{}

func (discard) Output(calldepth int, msgBytes []byte, loggerLevel erpc.LoggerLevel) {}
func (discard) Flush() error                                                        { return nil }

const watchdog = 20 * time.Second

// ---------- case description (JSON-able, sufficient for replay) ----------

type step struct {
	Op   string `json:"op"`
	Arg  int    `json:"arg,omitempty"`
	Arg2 int    `json:"arg2,omitempty"` // limit-change "update": new QPSInterval in ms (0: unchanged)
}

type caseDesc struct {
	Class  string `json:"class"` // engine/mode-class (crash attribution by the driver)
	Engine string `json:"engine"`
	Mode   string `json:"mode,omitempty"`
	HClass string `json:"history_class"`
	N      int    `json:"limit,omitempty"`
	Steps  []step `json:"steps,omitempty"`
	Seed   int64  `json:"seed,omitempty"`
	// conc
	G       int   `json:"goroutines,omitempty"`
	Ops     int   `json:"ops_per_goroutine,omitempty"`
	Cap     int   `json:"max_live_per_goroutine,omitempty"`
	RejB    int   `json:"reject_before_permille,omitempty"`
	RejA    int   `json:"reject_after_permille,omitempty"`
	Updates []int `json:"updates_between_phases,omitempty"`
	// lin
	Histories int `json:"histories,omitempty"`
	// rate
	MaxQPS     int    `json:"max_qps,omitempty"`
	IntervalMs int    `json:"interval_ms,omitempty"`
	HandlerQPS int    `json:"handler_qps,omitempty"`
	Rounds     int    `json:"rounds,omitempty"`
	Burst      int    `json:"burst,omitempty"`
	Sessions   int    `json:"sessions,omitempty"`
	Kinds      string `json:"kinds,omitempty"` // call | push | mix
	PauseTicks int    `json:"pause_ticks,omitempty"`
	Iter       int    `json:"iterations,omitempty"`
	Place      string `json:"burst_placement,omitempty"` // limit-change: at-once | first-refill | ticks-later
}

type finding struct {
	Symptom string      `json:"symptom"`
	Detail  string      `json:"detail"`
	Extra   interface{} `json:"extra,omitempty"`
}

type report struct {
	findings     []finding
	inconclusive string
	trace        []string
	admitted     int64
	rejected     int64
	ended        int64
	maxLive      int
	probesOK     int64
	evals        int64
	nontrivial   bool
	sig          string
	extra        map[string]interface{}
}

func (rp *report) add(symptom, detail string, extra interface{}) {
	for _, f := range rp.findings {
		if f.Symptom == symptom {
			return
		}
	}
	rp.findings = append(rp.findings, finding{symptom, detail, extra})
}

func (rp *report) has(symptom string) bool {
	for _, f := range rp.findings {
		if f.Symptom == symptom {
			return true
		}
	}
	return false
}

func waitWG(wg *sync.WaitGroup, d time.Duration) bool {
	done := make(chan struct{})
	go func() { wg.Wait(); close(done) }()
	select {
	case <-done:
		return true
	case <-time.After(d):
		return false
	}
}

func quiet() bool {
	t0 := time.Now()
	q := quiesce.Wait(quiesce.Options{Interval: 2 * time.Millisecond, Timeout: watchdog})
	if os.Getenv("C18_TIMING") == "2" {
		fmt.Fprintf(os.Stderr, "QUIET samples=%d goroutines=%d %.1fms\n", q.Samples, len(q.Dump), float64(time.Since(t0).Microseconds())/1000)
	}
	if !q.Quiescent {
		for _, g := range q.Dump {
			switch g.State {
			case "running", "runnable", "syscall", "sleep":
				fmt.Fprintln(os.Stderr, "not quiescent:", quiesce.Brief([]quiesce.G{g}))
			}
		}
	}
	return q.Quiescent
}

// ---------- conn engine: monitor and plug-ins ----------

type overEvent struct {
	Count int    `json:"admitted_live"`
	Limit int    `json:"limit_in_force"`
	Phase string `json:"phase"`
}

type monitor struct {
	mu             sync.Mutex
	live           map[string]struct{}
	limit          int // limit in force (0: none)
	lastAdmitLimit int // limit in force at the most recent admission (0: none/unknown)
	phase          string
	overs          []overEvent
	admits, ends   int64
	maxLive        int
}

func (m *monitor) admit(addr string) {
	m.mu.Lock()
	m.live[addr] = struct{}{}
	m.admits++
	n := len(m.live)
	if n > m.maxLive {
		m.maxLive = n
	}
	m.lastAdmitLimit = m.limit
	if m.limit > 0 && n > m.limit && len(m.overs) < 50 {
		m.overs = append(m.overs, overEvent{n, m.limit, m.phase})
	}
	m.mu.Unlock()
}

func (m *monitor) end(addr string) {
	m.mu.Lock()
	if _, ok := m.live[addr]; ok {
		delete(m.live, addr)
		m.ends++
	}
	m.mu.Unlock()
}

func (m *monitor) set(limit int, phase string) {
	m.mu.Lock()
	if limit >= 0 {
		m.limit = limit
	}
	if phase != "" {
		m.phase = phase
	}
	m.mu.Unlock()
}

func (m *monitor) snapshot() (live, lastLimit int, overs []overEvent) {
	m.mu.Lock()
	defer m.mu.Unlock()
	return len(m.live), m.lastAdmitLimit, append([]overEvent(nil), m.overs...)
}

// monAfter sits AFTER the overloader in accept order: it only sees sessions the overloader admitted.
type monAfter struct{ m *monitor }

func (p *monAfter) Name() string { return "c18-mon-after" }
func (p *monAfter) PostAccept(s erpc.PreSession) *erpc.Status {
	p.m.admit(s.RemoteAddr().String())
	return nil
}

// monBefore sits BEFORE the overloader in disconnect order: it counts out before the slot is released.
type monBefore struct{ m *monitor }

func (p *monBefore) Name() string { return "c18-mon-before" }
func (p *monBefore) PostDisconnect(s erpc.BaseSession) *erpc.Status {
	p.m.end(s.RemoteAddr().String())
	return nil
}

// rejector is "another plug-in" rejecting connections in its accept hook.
type rejector struct {
	name     string
	pending  int32
	permille int32
	mu       sync.Mutex
	r        *core.Rand
	hits     int64
}

func (p *rejector) Name() string { return p.name }
func (p *rejector) PostAccept(s erpc.PreSession) *erpc.Status {
	rej := false
	for {
		v := atomic.LoadInt32(&p.pending)
		if v <= 0 {
			break
		}
		if atomic.CompareAndSwapInt32(&p.pending, v, v-1) {
			rej = true
			break
		}
	}
	if pm := atomic.LoadInt32(&p.permille); !rej && pm > 0 {
		p.mu.Lock()
		rej = int32(p.r.Intn(1000)) < pm
		p.mu.Unlock()
	}
	if rej {
		atomic.AddInt64(&p.hits, 1)
		return erpc.NewStatus(403, "rejected by "+p.name, nil)
	}
	return nil
}

// Probe is the call handler used to see whether a session can complete a call.
func Probe(ctx erpc.CallCtx, arg *string) (string, *erpc.Status) { return *arg, nil }

type server struct {
	peer       erpc.Peer
	ov         *overloader.Overloader
	mon        *monitor
	rejB, rejA *rejector
	route      string
}

func newServer(n int, rseed int64) *server {
	s := &server{mon: &monitor{live: map[string]struct{}{}, limit: n, phase: "history"}}
	s.rejB = &rejector{name: "c18-reject-before", r: core.NewRand(rseed, 1)}
	s.rejA = &rejector{name: "c18-reject-after", r: core.NewRand(rseed, 2)}
	s.ov = overloader.New(overloader.LimitConfig{MaxConn: int32(n)})
	// accept order = disconnect order = list order
	s.peer = erpc.NewPeer(erpc.PeerConfig{}, &monBefore{s.mon}, s.rejB, s.ov, &monAfter{s.mon}, s.rejA)
	s.route = s.peer.RouteCallFunc(Probe)
	return s
}

type link struct {
	ca, cb   *memconn.Conn
	cs, ss   erpc.Session
	sstat    *erpc.Status
	admitted bool // the server's ServeConn returned OK
	ended    bool // the harness ended it
	by       string
	checked  bool
}

func (s *server) connect(cli erpc.Peer) (*link, error) {
	ca, cb := memconn.NewPair()
	l := &link{ca: ca, cb: cb}
	done := make(chan struct{})
	go func() {
		defer close(done)
		l.ss, l.sstat = s.peer.ServeConn(cb)
	}()
	cs, cst := cli.ServeConn(ca)
	select {
	case <-done:
	case <-time.After(watchdog):
		return nil, fmt.Errorf("server ServeConn did not return")
	}
	if !cst.OK() {
		return nil, fmt.Errorf("client ServeConn failed: %v", cst)
	}
	l.cs = cs
	l.admitted = l.sstat.OK()
	if !l.admitted {
		switch msg := l.sstat.Msg(); {
		case strings.Contains(msg, "connection overload"):
			l.by = "limit"
		case strings.Contains(msg, "c18-reject-before"):
			l.by = "plugin-before"
		case strings.Contains(msg, "c18-reject-after"):
			l.by = "plugin-after"
		default:
			l.by = "other:" + l.sstat.String()
		}
	}
	return l, nil
}

func (l *link) end(kind int) {
	l.ended = true
	switch kind % 4 {
	case 0:
		l.cs.Close()
	case 1:
		if l.ss != nil {
			l.ss.Close()
		}
	case 2:
		l.ca.Sever(false)
	case 3:
		l.ca.Sever(true)
	}
}

// probeAll counts the sessions able to complete a call right now.
func probeAll(s *server, links []*link) (int, bool) {
	var ok int64
	var wg sync.WaitGroup
	for _, l := range links {
		if l == nil || l.cs == nil {
			continue
		}
		wg.Add(1)
		go func(l *link) {
			defer wg.Done()
			var res string
			if _, st := l.cs.Call(s.route, "p", &res).Reply(); st.OK() && res == "p" {
				atomic.AddInt64(&ok, 1)
			}
		}(l)
	}
	if !waitWG(&wg, watchdog) {
		return int(atomic.LoadInt64(&ok)), false
	}
	return int(ok), true
}

// checkQuiescent evaluates the clauses decidable at a quiescent point of the history phase.
func checkQuiescent(s *server, links []*link, rp *report, where string) bool {
	for _, l := range links {
		if !l.admitted && !l.checked {
			l.checked = true
			if !l.cb.IsClosed() {
				rp.add("rejected-not-closed", fmt.Sprintf("%s: a connection rejected by %s is still open on the server side at quiescence", where, l.by), nil)
			}
		}
	}
	_, lastLimit, overs := s.mon.snapshot()
	for _, e := range overs {
		if e.Phase == "history" {
			rp.add("over-admission", fmt.Sprintf("%s: an admission made %d sessions admitted-live with limit %d in force", where, e.Count, e.Limit), overs)
			break
		}
	}
	ok, fin := probeAll(s, links)
	if !fin {
		rp.inconclusive = where + ": probe calls did not complete"
		return false
	}
	atomic.AddInt64(&rp.probesOK, int64(ok))
	rp.evals++
	if lastLimit > 0 && ok > lastLimit {
		rp.add("over-admission-probe", fmt.Sprintf("%s: %d sessions completed a probe call at quiescence; limit in force at the last admission was %d", where, ok, lastLimit), nil)
	}
	return true
}

// endAndFresh ends every session and then counts how many fresh connections are admitted.
func endAndFresh(s *server, cli erpc.Peer, links []*link, rp *report) {
	for _, l := range links {
		l.ended = true
		l.cs.Close()
		if l.ss != nil {
			l.ss.Close()
		}
		l.ca.Sever(false)
	}
	if !quiet() {
		rp.inconclusive = "no quiescence after ending all sessions"
		return
	}
	live, _, _ := s.mon.snapshot()
	s.mon.mu.Lock()
	limit := s.mon.limit
	s.mon.mu.Unlock()
	rp.trace = append(rp.trace, fmt.Sprintf("all sessions ended: monitor live=%d, CountSession=%d, limit in force=%d", live, s.peer.CountSession(), limit))
	if limit <= 0 {
		return
	}
	s.mon.set(-1, "fresh")
	// the other plug-ins stay out of the fresh phase: every refusal there is the overloader's
	atomic.StoreInt32(&s.rejB.permille, 0)
	atomic.StoreInt32(&s.rejA.permille, 0)
	atomic.StoreInt32(&s.rejB.pending, 0)
	atomic.StoreInt32(&s.rejA.pending, 0)
	var fresh []*link
	defer func() {
		for _, l := range fresh {
			l.cs.Close()
			if l.ss != nil {
				l.ss.Close()
			}
			l.ca.Sever(false)
		}
	}()
	got := 0
	for got < limit {
		l, err := s.connect(cli)
		if err != nil {
			rp.inconclusive = "fresh phase: " + err.Error()
			return
		}
		fresh = append(fresh, l)
		if !quiet() {
			rp.inconclusive = "no quiescence in the fresh phase"
			return
		}
		if !l.admitted && l.by != "limit" {
			rp.inconclusive = "fresh phase: a connection was refused by something else than the limit: " + l.sstat.String()
			return
		}
		if !l.admitted {
			rp.trace = append(rp.trace, fmt.Sprintf("fresh connection %d: REJECTED (%s)", got+1, l.sstat.String()))
			rp.add("leaked-slot", fmt.Sprintf("after all sessions ended only %d of %d fresh connections were admitted (refusal: %s)", got, limit, l.sstat.Msg()), nil)
			rp.evals++
			return
		}
		got++
		rp.trace = append(rp.trace, fmt.Sprintf("fresh connection %d: admitted", got))
	}
	extra := 0
	for k := 0; k < 3; k++ {
		l, err := s.connect(cli)
		if err != nil {
			rp.inconclusive = "fresh phase: " + err.Error()
			return
		}
		fresh = append(fresh, l)
		if !quiet() {
			rp.inconclusive = "no quiescence in the fresh phase"
			return
		}
		if !l.admitted {
			rp.trace = append(rp.trace, fmt.Sprintf("fresh connection %d: rejected (%s)", limit+extra+1, l.by))
			break
		}
		extra++
		rp.trace = append(rp.trace, fmt.Sprintf("fresh connection %d: ADMITTED beyond the limit", limit+extra))
	}
	rp.evals++
	if extra > 0 {
		ok, _ := probeAll(s, fresh)
		rp.add("phantom-slot", fmt.Sprintf("after all sessions ended %d fresh connections were admitted with limit %d (%d of them complete a probe call)", limit+extra, limit, ok), nil)
	}
}

func livePick(links []*link, k int) *link {
	var lv []*link
	for _, l := range links {
		if l.admitted && !l.ended {
			lv = append(lv, l)
		}
	}
	if len(lv) == 0 {
		return nil
	}
	if k < 0 {
		k = -k
	}
	return lv[k%len(lv)]
}

func runSeq(c caseDesc) *report { return runSeqUntil(c, "") }

// runSeqUntil stops as soon as the given symptom has been observed (used while minimising).
func runSeqUntil(c caseDesc, until string) *report {
	rp := &report{extra: map[string]interface{}{}}
	s := newServer(c.N, c.Seed)
	cli := erpc.NewPeer(erpc.PeerConfig{})
	defer func() {
		s.peer.Close()
		cli.Close()
	}()
	var links []*link
	feat := map[string]bool{}
	for i, st := range c.Steps {
		where := fmt.Sprintf("step %d (%s)", i+1, st.Op)
		obs := ""
		switch st.Op {
		case "connect", "connect-rejB", "connect-rejA":
			if st.Op == "connect-rejB" {
				atomic.StoreInt32(&s.rejB.pending, 1)
			}
			if st.Op == "connect-rejA" {
				atomic.StoreInt32(&s.rejA.pending, 1)
			}
			l, err := s.connect(cli)
			atomic.StoreInt32(&s.rejB.pending, 0)
			atomic.StoreInt32(&s.rejA.pending, 0)
			if err != nil {
				rp.inconclusive = where + ": " + err.Error()
				return rp
			}
			links = append(links, l)
			if l.admitted {
				rp.admitted++
				obs = "admitted"
				feat["admit"] = true
			} else {
				rp.rejected++
				obs = "rejected by " + l.by
				feat["reject-"+l.by] = true
			}
		case "cclose", "sclose", "cut", "cut-reset":
			l := livePick(links, st.Arg)
			if l == nil {
				obs = "no live session"
				break
			}
			l.end(map[string]int{"cclose": 0, "sclose": 1, "cut": 2, "cut-reset": 3}[st.Op])
			rp.ended++
			feat["end"] = true
			obs = "ended " + l.cb.RemoteAddr().String()
		case "update":
			s.ov.Update(overloader.LimitConfig{MaxConn: int32(st.Arg)})
			s.mon.set(st.Arg, "")
			feat["update"] = true
			obs = fmt.Sprintf("limit now %d", st.Arg)
		case "disable-reenable":
			// no connection is made while the limit is off, so every session was admitted under a positive limit
			s.ov.Update(overloader.LimitConfig{MaxConn: 0})
			s.ov.Update(overloader.LimitConfig{MaxConn: int32(st.Arg)})
			s.mon.set(st.Arg, "")
			feat["disable-reenable"] = true
			obs = fmt.Sprintf("limit switched off and back on at %d", st.Arg)
		default:
			core.Fatalf("unknown step %q", st.Op)
		}
		if !quiet() {
			rp.inconclusive = "no quiescence after " + where
			return rp
		}
		live, _, _ := s.mon.snapshot()
		s.mon.mu.Lock()
		lim := s.mon.limit
		s.mon.mu.Unlock()
		rp.trace = append(rp.trace, fmt.Sprintf("%d %s -> %s [monitor live %d, limit %d]", i+1, st.Op, obs, live, lim))
		if !checkQuiescent(s, links, rp, where) {
			return rp
		}
		if until != "" && rp.has(until) {
			return rp
		}
	}
	endAndFresh(s, cli, links, rp)
	rp.maxLive = s.mon.maxLive
	var fs []string
	for k := range feat {
		fs = append(fs, k)
	}
	sort.Strings(fs)
	rp.sig = fmt.Sprintf("conn/seq/%s/N%d/%s", c.HClass, c.N, strings.Join(fs, "+"))
	rp.nontrivial = feat["admit"] && (feat["end"] || rp.rejected > 0)
	return rp
}

func runConc(c caseDesc) *report {
	rp := &report{extra: map[string]interface{}{}}
	s := newServer(c.N, c.Seed)
	atomic.StoreInt32(&s.rejB.permille, int32(c.RejB))
	atomic.StoreInt32(&s.rejA.permille, int32(c.RejA))
	cli := erpc.NewPeer(erpc.PeerConfig{})
	defer func() {
		s.peer.Close()
		cli.Close()
	}()
	var all []*link
	var amu sync.Mutex
	rejBy := map[string]int{}
	for ph := 0; ph <= len(c.Updates); ph++ {
		var wg sync.WaitGroup
		var cerr atomic.Value
		start := make(chan struct{})
		for g := 0; g < c.G; g++ {
			wg.Add(1)
			go func(g int) {
				defer wg.Done()
				r := core.NewRand(c.Seed, int64(ph), int64(g))
				var mine []*link
				<-start
				for op := 0; op < c.Ops; op++ {
					var lv []*link
					for _, l := range mine {
						if l.admitted && !l.ended {
							lv = append(lv, l)
						}
					}
					if len(lv) < c.Cap && (len(lv) == 0 || r.Intn(5) < 3) {
						l, err := s.connect(cli)
						if err != nil {
							cerr.Store(err.Error())
							return
						}
						mine = append(mine, l)
						amu.Lock()
						all = append(all, l)
						if !l.admitted {
							rejBy[l.by]++
						}
						amu.Unlock()
					} else if len(lv) > 0 {
						lv[r.Intn(len(lv))].end(r.Intn(4))
						atomic.AddInt64(&rp.ended, 1)
					}
					if r.Intn(4) == 0 {
						runtime.Gosched()
					}
				}
			}(g)
		}
		close(start)
		where := fmt.Sprintf("concurrent phase %d", ph+1)
		if !waitWG(&wg, 3*watchdog) {
			rp.inconclusive = where + ": goroutines did not finish"
			return rp
		}
		if e := cerr.Load(); e != nil {
			rp.inconclusive = where + ": " + e.(string)
			return rp
		}
		if !quiet() {
			rp.inconclusive = "no quiescence after " + where
			return rp
		}
		live, _, _ := s.mon.snapshot()
		rp.trace = append(rp.trace, fmt.Sprintf("%s done: %d connections so far, monitor live %d, max live %d", where, len(all), live, s.mon.maxLive))
		if !checkQuiescent(s, all, rp, where) {
			return rp
		}
		if ph < len(c.Updates) {
			s.ov.Update(overloader.LimitConfig{MaxConn: int32(c.Updates[ph])})
			s.mon.set(c.Updates[ph], "")
			rp.trace = append(rp.trace, fmt.Sprintf("Update: limit now %d", c.Updates[ph]))
		}
	}
	for _, l := range all {
		if l.admitted {
			rp.admitted++
		} else {
			rp.rejected++
		}
	}
	endAndFresh(s, cli, all, rp)
	rp.maxLive = s.mon.maxLive
	rp.extra["rejected_by"] = rejBy
	rp.sig = fmt.Sprintf("conn/conc/%s/N%d/G%d/upd%d", c.HClass, c.N, c.G, len(c.Updates))
	rp.nontrivial = rp.admitted > 0 && rp.ended > 0 && s.mon.maxLive >= 1
	return rp
}

// minimise shrinks a failing sequential history (delta debugging over the steps, then a smaller
// limit) within the process-wide budget of re-executions. It returns the smallest failing case
// and the report of its last failing execution.
var minRuns, minBudget = 0, 120

// minimal histories already found in this process, tried first (the symptoms share one cause more often than not)
var minCache []caseDesc

func minimise(c caseDesc, symptom string) (caseDesc, *report) {
	cur := c
	var last *report
	fails := func(t caseDesc) bool {
		if minRuns >= minBudget {
			return false
		}
		minRuns++
		rp := runSeqUntil(t, symptom)
		if rp.inconclusive == "" && rp.has(symptom) {
			last = rp
			return true
		}
		return false
	}
	for _, m := range minCache {
		if m.HClass == c.HClass && len(m.Steps) < len(cur.Steps) {
			if fails(m) {
				cur = m
			}
		}
	}
	without := func(i, n int) caseDesc {
		t := cur
		t.Steps = append(append([]step(nil), cur.Steps[:i]...), cur.Steps[i+n:]...)
		return t
	}
	for chunk := (len(cur.Steps) + 1) / 2; chunk >= 1; chunk /= 2 {
		for again := true; again && minRuns < minBudget; {
			again = false
			for i := 0; i+chunk <= len(cur.Steps); {
				if t := without(i, chunk); fails(t) {
					cur = t
					again = chunk == 1
				} else {
					i += chunk
				}
			}
		}
	}
	for n := 1; n < cur.N; n++ {
		t := cur
		t.N = n
		if fails(t) {
			cur = t
			break
		}
	}
	if last != nil {
		minCache = append(minCache, cur)
	}
	return cur, last
}

// ---------- conn generators ----------

var seqClasses = []string{"plain", "limit-reject", "reject-before", "reject-after", "update", "update-disable-reenable", "mixed"}

func genSeq(class string, r *core.Rand) caseDesc {
	n := 1 + r.Intn(4)
	c := caseDesc{Engine: "conn", Mode: "seq", HClass: class, N: n, Class: "conn/seq-" + class}
	length := 3 + r.Intn(10)
	live, limit := 0, n
	ends := []string{"cclose", "sclose", "cut", "cut-reset"}
	for len(c.Steps) < length {
		var st step
		x := r.Intn(100)
		connectOK := class != "plain" || live < limit
		switch {
		case x < 45 && connectOK && live < limit+2:
			st = step{Op: "connect"}
			if live < limit {
				live++
			}
		case x < 55 && (class == "reject-before" || class == "mixed"):
			st = step{Op: "connect-rejB"}
		case x < 65 && (class == "reject-after" || class == "mixed"):
			st = step{Op: "connect-rejA"}
		case x < 75 && (class == "update" || class == "mixed"):
			limit = 1 + r.Intn(4)
			st = step{Op: "update", Arg: limit}
		case x < 75 && class == "update-disable-reenable":
			limit = 1 + r.Intn(3)
			st = step{Op: "disable-reenable", Arg: limit}
		case live > 0:
			st = step{Op: ends[r.Intn(len(ends))], Arg: r.Intn(8)}
			live--
		default:
			continue
		}
		c.Steps = append(c.Steps, st)
	}
	return c
}

func genConc(class string, r *core.Rand) caseDesc {
	c := caseDesc{Engine: "conn", Mode: "conc", HClass: class, Class: "conn/conc-" + class, G: 16, Ops: 6 + r.Intn(10), Cap: 3, Seed: int64(r.Uint64() >> 1)}
	c.N = 1 + r.Intn(12)
	switch class {
	case "plain":
		c.N = c.G * c.Cap // never reached: only the take/release pairing is exercised
	case "limit-reject":
	case "reject-before":
		c.RejB = 150
	case "reject-after":
		c.RejA = 150
	case "update":
		for k := 0; k < 1+r.Intn(2); k++ {
			c.Updates = append(c.Updates, 1+r.Intn(12))
		}
	case "mixed":
		c.RejB, c.RejA = 80, 80
		c.Updates = []int{1 + r.Intn(12)}
	}
	return c
}

var concClasses = []string{"plain", "limit-reject", "reject-before", "reject-after", "update", "mixed"}

// ---------- lin engine ----------

type linIn struct {
	Op  int // 0 take, 1 release of a held slot, 2 disconnect hook of a refused session (no slot held), 3 update
	Arg int
}

type linState struct{ Count, N int }

var linNames = []string{"take", "release", "disconnect-after-refusal", "update"}

func linModel(n int) porcupine.Model {
	return porcupine.Model{
		Init: func() interface{} { return linState{0, n} },
		Step: func(state, input, output interface{}) (bool, interface{}) {
			s := state.(linState)
			in := input.(linIn)
			switch in.Op {
			case 0:
				if !output.(bool) {
					return true, s // a refusal is always legal
				}
				if s.Count < s.N {
					s.Count++
					return true, s
				}
				return false, s
			case 1:
				s.Count--
				return true, s
			case 2:
				return true, s // a refused session holds no slot: its disconnect hook must not change the count
			case 3:
				s.N = in.Arg
				return true, s
			}
			return false, s
		},
		Equal: func(a, b interface{}) bool { return a.(linState) == b.(linState) },
		DescribeOperation: func(input, output interface{}) string {
			return fmt.Sprintf("%s(%d)->%v", linNames[input.(linIn).Op], input.(linIn).Arg, output)
		},
	}
}

type linOp struct {
	G      int    `json:"goroutine"`
	Op     string `json:"op"`
	Arg    int    `json:"arg,omitempty"`
	Result bool   `json:"result"`
	Call   int64  `json:"call"`
	Return int64  `json:"return"`
}

// sessPool hands out real sessions (the hooks receive what the framework would pass them).
type sessPool struct {
	peer  erpc.Peer
	sess  []erpc.Session
	conns []*memconn.Conn
}

func newSessPool(n int) *sessPool {
	p := &sessPool{peer: erpc.NewPeer(erpc.PeerConfig{})}
	for i := 0; i < n; i++ {
		ca, cb := memconn.NewPair()
		s, st := p.peer.ServeConn(cb)
		if !st.OK() {
			core.Fatalf("session pool: %v", st)
		}
		p.sess = append(p.sess, s)
		p.conns = append(p.conns, ca)
	}
	return p
}

var linClasses = []string{"paired", "framework", "paired-update", "framework-update"}

type discRec struct{ n int32 }

func (d *discRec) Name() string { return "c18-disconnect-recorder" }
func (d *discRec) PostDisconnect(erpc.BaseSession) *erpc.Status {
	atomic.AddInt32(&d.n, 1)
	return nil
}

var (
	discOnce   sync.Once
	discOnRej  bool
	discOnRejN int32
)

// disconnectOnReject observes, once per process, whether the framework runs the disconnect hooks for a
// session that an accept hook refused. The "framework" histories replay exactly that call pattern on the
// plug-in; if the framework does not do it, they would model calls that never happen and are run as "paired".
func disconnectOnReject() bool {
	discOnce.Do(func() {
		d := &discRec{}
		rej := &rejector{name: "c18-probe-reject", pending: 1, r: core.NewRand(1)}
		p := erpc.NewPeer(erpc.PeerConfig{}, d, rej)
		ca, cb := memconn.NewPair()
		_, st := p.ServeConn(cb)
		quiet()
		discOnRejN = atomic.LoadInt32(&d.n)
		discOnRej = !st.OK() && discOnRejN > 0
		ca.Close()
		p.Close()
	})
	return discOnRej
}

// runLinHistory records one concurrent history and checks it.
func runLinHistory(class string, n, g, per int, pool *sessPool, r *core.Rand) (verdict string, ops []linOp, overlap bool) {
	ov := overloader.New(overloader.LimitConfig{MaxConn: int32(n)})
	framework := strings.HasPrefix(class, "framework") && disconnectOnReject()
	update := strings.HasSuffix(class, "update")
	var clk int64
	var mu sync.Mutex
	var wg sync.WaitGroup
	var start int32 // spin barrier: the goroutines leave it together, which is what makes the short operations overlap
	held := make([][]erpc.Session, g)
	for gi := 0; gi < g; gi++ {
		wg.Add(1)
		gr := core.NewRand(int64(r.Uint64()>>1), int64(gi))
		go func(gi int) {
			defer wg.Done()
			var local []linOp
			next := gi * per
			for atomic.LoadInt32(&start) == 0 {
			}
			for k := 0; k < per; k++ {
				switch {
				case update && gi == 0 && k == per/2:
					nn := 1 + gr.Intn(3)
					c := atomic.AddInt64(&clk, 1)
					ov.Update(overloader.LimitConfig{MaxConn: int32(nn)})
					ret := atomic.AddInt64(&clk, 1)
					local = append(local, linOp{gi, "update", nn, true, c, ret})
				case len(held[gi]) > 0 && gr.Intn(2) == 0:
					s := held[gi][len(held[gi])-1]
					held[gi] = held[gi][:len(held[gi])-1]
					c := atomic.AddInt64(&clk, 1)
					ov.PostDisconnect(s.(erpc.BaseSession))
					ret := atomic.AddInt64(&clk, 1)
					local = append(local, linOp{gi, "release", 0, true, c, ret})
				default:
					s := pool.sess[next%len(pool.sess)]
					next++
					c := atomic.AddInt64(&clk, 1)
					st := ov.PostAccept(s.(erpc.PreSession))
					ret := atomic.AddInt64(&clk, 1)
					local = append(local, linOp{gi, "take", 0, st.OK(), c, ret})
					if st.OK() {
						held[gi] = append(held[gi], s)
					} else if framework && k+1 < per {
						// what the framework does with a session an accept hook refused: Close -> disconnect hooks
						k++
						c := atomic.AddInt64(&clk, 1)
						ov.PostDisconnect(s.(erpc.BaseSession))
						ret := atomic.AddInt64(&clk, 1)
						local = append(local, linOp{gi, "disconnect-after-refusal", 0, true, c, ret})
					}
				}
			}
			mu.Lock()
			ops = append(ops, local...)
			mu.Unlock()
		}(gi)
	}
	time.Sleep(50 * time.Microsecond)
	atomic.StoreInt32(&start, 1)
	wg.Wait()
	// give the slots back (not part of the history; sessions are reused by the next one)
	for gi := range held {
		for _, s := range held[gi] {
			ov.PostDisconnect(s.(erpc.BaseSession))
		}
	}
	sort.Slice(ops, func(i, j int) bool { return ops[i].Call < ops[j].Call })
	var pops []porcupine.Operation
	opIdx := map[string]int{"take": 0, "release": 1, "disconnect-after-refusal": 2, "update": 3}
	var maxRet int64
	for _, o := range ops {
		if o.Call < maxRet {
			overlap = true
		}
		if o.Return > maxRet {
			maxRet = o.Return
		}
		pops = append(pops, porcupine.Operation{ClientId: o.G, Input: linIn{opIdx[o.Op], o.Arg}, Call: o.Call, Output: o.Result, Return: o.Return})
	}
	return lin.Check(linModel(n), pops, 10*time.Second), ops, overlap
}

func runLin(id string, c caseDesc) {
	r := core.NewRand(c.Seed, 31)
	pool := newSessPool(48)
	defer func() {
		for i, s := range pool.sess {
			s.Close()
			pool.conns[i].Close()
		}
		pool.peer.Close()
	}()
	framework := strings.HasPrefix(c.HClass, "framework") && disconnectOnReject()
	if strings.HasPrefix(c.HClass, "framework") {
		core.Max("framework_disconnect_hooks_for_a_refused_session", int64(discOnRejN))
	}
	var illegal, unknown, overlaps, refusals, takes int64
	var first []linOp
	firstN, firstG := 0, 0
	for h := 0; h < c.Histories; h++ {
		n := 1 + r.Intn(3)
		g := []int{2, 4, 8, 16, 16}[r.Intn(5)]
		per := 40 / g
		if per > 6 {
			per = 2 + r.Intn(5)
		}
		if framework && per < 3 {
			per = 3
			if g*per > 40 {
				g = 13
			}
		}
		v, ops, ov := runLinHistory(c.HClass, n, g, per, pool, r)
		core.Add("evaluations", 1)
		core.Add("lin_histories", 1)
		core.Add("lin_ops", int64(len(ops)))
		if ov {
			overlaps++
		}
		for _, o := range ops {
			if o.Op == "take" {
				takes++
				if !o.Result {
					refusals++
				}
			}
		}
		if ov {
			core.Distinct("nontrivial", fmt.Sprintf("lin/%s/N%d/G%d", c.HClass, n, g))
		}
		switch v {
		case "illegal":
			illegal++
			if first == nil || len(ops) < len(first) {
				first, firstN, firstG = ops, n, g
			}
		case "unknown":
			unknown++
		}
	}
	core.Add("lin_histories_with_overlap", overlaps)
	core.Add("lin_takes", takes)
	core.Add("lin_refusals", refusals)
	core.Add("lin_checker_timeouts", unknown)
	sig := "lin/" + c.HClass
	switch {
	case illegal > 0:
		core.Result(core.R{ID: id, Verdict: core.Violated, FP: fmt.Sprintf("%s/lin/%s/porcupine-illegal", *prop, c.HClass),
			What: fmt.Sprintf("lin %s: %d of %d recorded take/release histories are not linearizable against the counting semaphore (a take succeeded with all %d slots held); shortest has %d operations",
				c.HClass, illegal, c.Histories, firstN, len(first)),
			Witness: map[string]interface{}{"limit": firstN, "goroutines": firstG, "history": first, "illegal_histories": illegal, "explanation": explainLin(first, firstN)},
			Desc:    c, Sig: sig, Nontrivial: overlaps > 0})
	case unknown*20 > int64(c.Histories):
		core.Result(core.R{ID: id, Verdict: core.Inconclusive, What: fmt.Sprintf("porcupine timed out on %d of %d histories", unknown, c.Histories), Sig: sig})
	default:
		core.Result(core.R{ID: id, Verdict: core.Held, Sig: sig, Nontrivial: overlaps > 0})
	}
}

// explainLin gives the simplest reading of an illegal history: the lowest number of slots certainly held when some take succeeded.
func explainLin(ops []linOp, n int) string {
	worst := ""
	for i, o := range ops {
		if o.Op != "take" || !o.Result {
			continue
		}
		// slots certainly held when this take was called: takes that returned OK before it was called,
		// minus every release that was called before this take returned
		held := 0
		for j, p := range ops {
			if j == i {
				continue
			}
			if p.Op == "take" && p.Result && p.Return < o.Call {
				held++
			}
			if p.Op == "release" && p.Call < o.Return {
				held--
			}
		}
		if held >= n {
			worst = fmt.Sprintf("the take by goroutine %d called at %d succeeded although at least %d slots were held for its whole duration (limit %d)", o.G, o.Call, held, n)
			break
		}
	}
	if worst == "" {
		worst = "no single take is decisive on its own; the history as a whole has no legal ordering"
	}
	return worst
}

// ---------- rate engine ----------

type rateState struct {
	mu                       sync.Mutex
	arrived, passed, handled map[string]bool
	nPassed, nPassedCall     int64
	nHandled                 int64
	nArrived                 int64
	callRoute, pushRoute     string
}

var curRate atomic.Value // *rateState

type rateArrive struct{}

func (rateArrive) Name() string { return "c18-rate-arrive" }
func (rateArrive) PostReadCallHeader(ctx erpc.ReadCtx) *erpc.Status {
	rs := curRate.Load().(*rateState)
	t := string(ctx.PeekMeta("tok"))
	rs.mu.Lock()
	rs.arrived[t] = true
	rs.mu.Unlock()
	atomic.AddInt64(&rs.nArrived, 1)
	return nil
}
func (a rateArrive) PostReadPushHeader(ctx erpc.ReadCtx) *erpc.Status {
	return a.PostReadCallHeader(ctx)
}

type ratePassed struct{}

func (ratePassed) Name() string { return "c18-rate-passed" }
func (ratePassed) PostReadCallHeader(ctx erpc.ReadCtx) *erpc.Status {
	rs := curRate.Load().(*rateState)
	t := string(ctx.PeekMeta("tok"))
	rs.mu.Lock()
	rs.passed[t] = true
	rs.mu.Unlock()
	atomic.AddInt64(&rs.nPassed, 1)
	if ctx.ServiceMethod() == rs.callRoute {
		atomic.AddInt64(&rs.nPassedCall, 1)
	}
	return nil
}
func (p ratePassed) PostReadPushHeader(ctx erpc.ReadCtx) *erpc.Status {
	return p.PostReadCallHeader(ctx)
}

// RateCall and RatePush are the handlers behind the limiter.
func RateCall(ctx erpc.CallCtx, arg *string) (string, *erpc.Status) {
	rs := curRate.Load().(*rateState)
	rs.mu.Lock()
	rs.handled[*arg] = true
	rs.mu.Unlock()
	atomic.AddInt64(&rs.nHandled, 1)
	return *arg, nil
}

func RatePush(ctx erpc.PushCtx, arg *string) *erpc.Status {
	rs := curRate.Load().(*rateState)
	rs.mu.Lock()
	rs.handled[*arg] = true
	rs.mu.Unlock()
	atomic.AddInt64(&rs.nHandled, 1)
	return nil
}

func onceOf(maxQPS int, interval time.Duration) int64 {
	o := int32(maxQPS) / int32(time.Second/interval)
	if o == 0 {
		o = 1
	}
	return int64(o)
}

type rateSample struct {
	Tb, A, AC, Ta int64
}

type callRec struct {
	tok  string
	kind string
	done int32
	ok   bool
	code int32
	msg  string
}

func runRate(c caseDesc) *report {
	rp := &report{extra: map[string]interface{}{}}
	interval := time.Duration(c.IntervalMs) * time.Millisecond
	rs := &rateState{arrived: map[string]bool{}, passed: map[string]bool{}, handled: map[string]bool{}}
	curRate.Store(rs)
	t0 := overloader.VerifTicks() // before the limiter (and its ticker) exists
	cfg := overloader.LimitConfig{QPSInterval: interval, MaxTotalQPS: int32(c.MaxQPS)}
	ov := overloader.New(cfg)
	srv := erpc.NewPeer(erpc.PeerConfig{}, rateArrive{}, ov, ratePassed{})
	rs.callRoute = srv.RouteCallFunc(RateCall)
	rs.pushRoute = srv.RoutePushFunc(RatePush)
	if c.HandlerQPS > 0 {
		cfg.MaxHandlerQPS = []overloader.HandlerLimit{{ServiceMethod: rs.callRoute, MaxQPS: int32(c.HandlerQPS)}}
		ov.Update(cfg) // the total limiter is unchanged by this; the handler limiter starts full
	}
	cli := erpc.NewPeer(erpc.PeerConfig{})
	var links []*bed.Link
	defer func() {
		// park the tickers of this case at the slowest rate the limiter supports, so that later cases read (almost) only their own ticks
		park := cfg
		park.QPSInterval = time.Second
		ov.Update(park)
		atomic.AddInt64(&liveParked, int64(1+len(park.MaxHandlerQPS)))
		for _, l := range links {
			l.CA.Sever(false)
		}
		srv.Close()
		cli.Close()
	}()
	for i := 0; i < c.Sessions; i++ {
		l, err := bed.Connect(cli, srv, erpc.DefaultProtoFunc(), erpc.DefaultProtoFunc(), nil)
		if err != nil {
			rp.inconclusive = err.Error()
			return rp
		}
		links = append(links, l)
	}
	capTotal, onceTotal := int64(c.MaxQPS), onceOf(c.MaxQPS, interval)
	capH, onceH := int64(c.HandlerQPS), int64(0)
	if c.HandlerQPS > 0 {
		onceH = onceOf(c.HandlerQPS, interval)
	}
	r := core.NewRand(c.Seed, 77)
	samples := []rateSample{{Tb: t0, Ta: t0}}
	var recs []*callRec
	var okCalls, errCalls, otherErr int64
	exceeded := func(where string, a, dt, capacity, once int64, what string) {
		rp.add("rate-exceeded", fmt.Sprintf("%s: %d %s admitted in an interval with %d refill ticks; bound capacity %d + ticks*(once %d + 1) = %d",
			where, a, what, dt, capacity, once, capacity+dt*(once+1)), nil)
	}
	for round := 0; round < c.Rounds; round++ {
		var wg sync.WaitGroup
		var stop int32
		sdone := make(chan struct{})
		go func() { // mid-burst sampling against the start of the case only (an under-count of admissions is sound there)
			defer close(sdone)
			for atomic.LoadInt32(&stop) == 0 {
				a := atomic.LoadInt64(&rs.nPassed)
				t := overloader.VerifTicks()
				if a > capTotal+(t-t0)*(onceTotal+1) {
					exceeded(fmt.Sprintf("during round %d", round+1), a, t-t0, capTotal, onceTotal, "calls/pushes")
				}
				runtime.Gosched()
				time.Sleep(50 * time.Microsecond)
			}
		}()
		var batch []*callRec
		for j := 0; j < c.Burst; j++ {
			kind := c.Kinds
			if kind == "mix" {
				kind = []string{"call", "push"}[r.Intn(2)]
			}
			rec := &callRec{tok: fmt.Sprintf("r%d.%d", round, j), kind: kind}
			batch = append(batch, rec)
			sess := links[j%len(links)].A
			wg.Add(1)
			go func(rec *callRec) {
				defer wg.Done()
				if rec.kind == "call" {
					var res string
					_, st := sess.Call(rs.callRoute, rec.tok, &res, erpc.WithSetMeta("tok", rec.tok)).Reply()
					rec.ok, rec.code, rec.msg = st.OK(), st.Code(), st.Msg()
				} else {
					st := sess.Push(rs.pushRoute, rec.tok, erpc.WithSetMeta("tok", rec.tok))
					rec.ok, rec.code, rec.msg = st.OK(), st.Code(), st.Msg()
				}
				atomic.StoreInt32(&rec.done, 1)
			}(rec)
			if c.PauseTicks < 0 && j%3 == 2 { // paced arrival
				time.Sleep(interval / 4)
			}
		}
		finished := waitWG(&wg, watchdog)
		atomic.StoreInt32(&stop, 1)
		<-sdone
		if !quiet() {
			rp.inconclusive = fmt.Sprintf("no quiescence after round %d", round+1)
			return rp
		}
		recs = append(recs, batch...)
		// quiescent sample: ticks, admitted, ticks
		sm := rateSample{Tb: overloader.VerifTicks()}
		sm.A = atomic.LoadInt64(&rs.nPassed)
		sm.AC = atomic.LoadInt64(&rs.nPassedCall)
		sm.Ta = overloader.VerifTicks()
		for j, old := range samples {
			dt := sm.Ta - old.Tb
			where := fmt.Sprintf("rounds %d..%d", j+1, round+1)
			if a := sm.A - old.A; a > capTotal+dt*(onceTotal+1) {
				exceeded(where, a, dt, capTotal, onceTotal, "calls/pushes")
			}
			if a := sm.AC - old.AC; capH > 0 && a > capH+dt*(onceH+1) {
				exceeded(where+" (handler limit)", a, dt, capH, onceH, "calls to the limited handler")
			}
			rp.evals++
		}
		samples = append(samples, sm)
		// per-message clauses (decided at quiescence)
		rs.mu.Lock()
		for _, rec := range batch {
			arrived, passed, handled := rs.arrived[rec.tok], rs.passed[rec.tok], rs.handled[rec.tok]
			done := atomic.LoadInt32(&rec.done) == 1
			rp.evals++
			if arrived && !passed {
				rp.rejected++
				if handled {
					rp.add("rejected-handled", fmt.Sprintf("%s %s was rejected by the limiter and its handler ran all the same", rec.kind, rec.tok), nil)
				}
				if rec.kind == "call" {
					if !done {
						rp.add("rejected-no-reply", fmt.Sprintf("call %s was rejected by the limiter and is still without a reply at quiescence", rec.tok), nil)
					} else if rec.ok {
						rp.add("rejected-ok-reply", fmt.Sprintf("call %s was rejected by the limiter and completed with an OK status", rec.tok), nil)
					} else {
						errCalls++
					}
				}
			}
			if passed {
				rp.admitted++
				if !handled {
					rp.add("admitted-not-handled", fmt.Sprintf("%s %s passed the limiter and its handler has not run at quiescence", rec.kind, rec.tok), nil)
				}
				if rec.kind == "call" && done && rec.ok {
					okCalls++
				} else if rec.kind == "call" {
					otherErr++
				}
			}
		}
		rs.mu.Unlock()
		if !finished {
			if len(rp.findings) == 0 {
				rp.inconclusive = fmt.Sprintf("round %d: calls incomplete after the watchdog", round+1)
			}
			return rp
		}
		if c.PauseTicks > 0 {
			d := time.Duration(r.Intn(c.PauseTicks+1)) * interval
			if d > 300*time.Millisecond {
				d = 300 * time.Millisecond
			}
			time.Sleep(d)
		}
	}
	last := samples[len(samples)-1]
	if h := atomic.LoadInt64(&rs.nHandled); h != last.A {
		rp.add("handler-count-mismatch", fmt.Sprintf("%d messages passed the limiter, handlers ran %d times", last.A, h), nil)
	}
	rp.extra["admitted"] = last.A
	rp.extra["ticks"] = last.Ta - t0
	rp.extra["bound"] = capTotal + (last.Ta-t0)*(onceTotal+1)
	rp.extra["rejected"] = rp.rejected
	rp.extra["calls_ok"] = okCalls
	rp.extra["calls_error_reply"] = errCalls
	core.Add("rate_admitted", last.A)
	core.Add("rate_rejected", rp.rejected)
	core.Add("rate_ticks_observed", last.Ta-t0)
	core.Add("rate_error_replies", errCalls)
	core.Add("rate_admitted_calls_failing_otherwise", otherErr)
	rp.sig = fmt.Sprintf("rate/%s/cap%d/int%dms/h%d/burst%d/S%d", c.HClass, c.MaxQPS, c.IntervalMs, c.HandlerQPS, c.Burst, c.Sessions)
	rp.nontrivial = last.A > 0 && rp.rejected > 0
	return rp
}

// ---------- rate engine: windowed cases (per-interval bound) ----------

type winMark struct {
	Tb, P, Ta int64
	Label     string
}

// runWindow drives phases {let the bucket fill, drain d calls, wait for one refill tick, burst of B > capacity
// calls back to back} and asserts the statement's bound on EVERY window between two marks: the calls admitted
// between the marks never exceed capacity + ticks*(once+1), ticks read BEFORE the first call of the window and
// AFTER its last reply (which can only loosen the bound). Calls only: every reply is in before a mark is taken,
// so no admission of an earlier window is counted in a later one.
func runWindow(c caseDesc) *report {
	rp := &report{extra: map[string]interface{}{}}
	interval := time.Duration(c.IntervalMs) * time.Millisecond
	rs := &rateState{arrived: map[string]bool{}, passed: map[string]bool{}, handled: map[string]bool{}}
	curRate.Store(rs)
	t0 := overloader.VerifTicks()
	cfg := overloader.LimitConfig{QPSInterval: interval, MaxTotalQPS: int32(c.MaxQPS)}
	ov := overloader.New(cfg)
	srv := erpc.NewPeer(erpc.PeerConfig{}, rateArrive{}, ov, ratePassed{})
	rs.callRoute = srv.RouteCallFunc(RateCall)
	rs.pushRoute = srv.RoutePushFunc(RatePush)
	cli := erpc.NewPeer(erpc.PeerConfig{})
	var links []*bed.Link
	defer func() {
		park := cfg
		park.QPSInterval = time.Second
		ov.Update(park)
		atomic.AddInt64(&liveParked, int64(1+len(park.MaxHandlerQPS)))
		for _, l := range links {
			l.CA.Sever(false)
		}
		srv.Close()
		cli.Close()
	}()
	for i := 0; i < c.Sessions; i++ {
		l, err := bed.Connect(cli, srv, erpc.DefaultProtoFunc(), erpc.DefaultProtoFunc(), nil)
		if err != nil {
			rp.inconclusive = err.Error()
			return rp
		}
		links = append(links, l)
	}
	capacity, once := int64(c.MaxQPS), onceOf(c.MaxQPS, interval)
	fill := capacity/once + 1 // refill ticks after which an empty bucket is certainly full again

	// waitTicks polls the tick counter (logical progress, not a fixed sleep); the watchdog only yields inconclusive
	waitTicks := func(n int64) bool {
		start := overloader.VerifTicks()
		deadline := time.Now().Add(watchdog + time.Duration(n)*interval)
		for overloader.VerifTicks()-start < n {
			if time.Now().After(deadline) {
				return false
			}
			time.Sleep(300 * time.Microsecond)
		}
		// the counter is bumped at the start of a refill: let the refill itself land before a window starts
		settle := interval / 8
		if settle > 20*time.Millisecond {
			settle = 20 * time.Millisecond
		}
		time.Sleep(settle)
		return true
	}
	var okCalls, errCalls, otherErr int64
	seq := 0
	issue := func(n int) bool {
		var wg sync.WaitGroup
		for j := 0; j < n; j++ {
			seq++
			tok := fmt.Sprintf("w%d", seq)
			sess := links[j%len(links)].A
			wg.Add(1)
			go func() {
				defer wg.Done()
				var res string
				_, st := sess.Call(rs.callRoute, tok, &res, erpc.WithSetMeta("tok", tok)).Reply()
				switch {
				case st.OK():
					atomic.AddInt64(&okCalls, 1)
				case strings.Contains(st.Msg(), "qps overload"):
					atomic.AddInt64(&errCalls, 1)
				default:
					atomic.AddInt64(&otherErr, 1)
				}
			}()
		}
		return waitWG(&wg, watchdog)
	}
	var marks []winMark
	mark := func(label string) {
		m := winMark{Label: label}
		m.Tb = overloader.VerifTicks()
		m.P = atomic.LoadInt64(&rs.nPassed)
		m.Ta = overloader.VerifTicks()
		// every window ending here
		for _, o := range marks {
			a, dt := m.P-o.P, m.Ta-o.Tb
			rp.evals++
			if a > capacity+dt*(once+1) {
				rp.add("rate-exceeded", fmt.Sprintf("window [%s .. %s]: %d calls admitted with %d refill ticks between the first call and the last reply; bound capacity %d + ticks*(once %d + 1) = %d",
					o.Label, label, a, dt, capacity, once, capacity+dt*(once+1)), nil)
			}
		}
		marks = append(marks, m)
	}
	marks = append(marks, winMark{Tb: t0, Ta: t0, Label: "start"})
	var bursts []map[string]interface{}
	phase := 0
	for i := 0; i+1 < len(c.Steps); i += 2 {
		phase++
		d, b := c.Steps[i].Arg, c.Steps[i+1].Arg
		if phase > 1 && !waitTicks(fill) { // the first phase starts with the full bucket of a new limiter
			rp.inconclusive = "no refill tick observed (watchdog)"
			return rp
		}
		mark(fmt.Sprintf("phase %d before drain", phase))
		if d > 0 && !issue(d) {
			rp.inconclusive = "drain calls incomplete after the watchdog"
			return rp
		}
		mark(fmt.Sprintf("phase %d after drain of %d", phase, d))
		if !waitTicks(1) {
			rp.inconclusive = "no refill tick observed (watchdog)"
			return rp
		}
		mark(fmt.Sprintf("phase %d before burst", phase))
		before := marks[len(marks)-1]
		if !issue(b) {
			rp.inconclusive = "burst calls incomplete after the watchdog"
			return rp
		}
		mark(fmt.Sprintf("phase %d after burst of %d", phase, b))
		after := marks[len(marks)-1]
		bursts = append(bursts, map[string]interface{}{"drain": d, "burst": b, "admitted_in_burst": after.P - before.P,
			"ticks_in_burst_window": after.Ta - before.Tb, "bound": capacity + (after.Ta-before.Tb)*(once+1)})
		if after.Ta-before.Tb == 0 {
			core.Add("rate_window_bursts_without_a_tick", 1)
		}
		core.Add("rate_window_bursts", 1)
	}
	if !quiet() {
		rp.inconclusive = "no quiescence after the last burst"
		return rp
	}
	passed, handled := atomic.LoadInt64(&rs.nPassed), atomic.LoadInt64(&rs.nHandled)
	if handled != passed {
		rp.add("handler-count-mismatch", fmt.Sprintf("%d calls passed the limiter, handlers ran %d times", passed, handled), nil)
	}
	if okCalls != passed && otherErr == 0 {
		rp.add("rejected-ok-reply", fmt.Sprintf("%d calls passed the limiter but %d calls completed with an OK status", passed, okCalls), nil)
	}
	rp.admitted, rp.rejected = passed, errCalls
	rp.extra["bursts"] = bursts
	rp.extra["capacity"], rp.extra["once"], rp.extra["interval_ms"] = capacity, once, c.IntervalMs
	rp.extra["calls_ok"], rp.extra["calls_error_reply"], rp.extra["calls_failing_otherwise"] = okCalls, errCalls, otherErr
	core.Add("rate_admitted", passed)
	core.Add("rate_rejected", errCalls)
	core.Add("rate_error_replies", errCalls)
	core.Add("rate_window_cases", 1)
	rp.sig = fmt.Sprintf("rate/%s/cap%d/int%dms/phases%d", c.HClass, c.MaxQPS, c.IntervalMs, phase)
	rp.nontrivial = passed > 0 && errCalls > 0
	return rp
}

// genWindow: configurations whose refill per tick is > 1; partial drains (0 < d < once) are the interesting
// ones, d = 0 and d >= once are the controls.
func genWindow(i int, r *core.Rand) caseDesc {
	cfgs := []struct {
		qps, ms int
		once    string
	}{{20, 500, "once-half"}, {40, 250, "once-quarter"}, {20, 1000, "once-full"}, {100, 100, "once-tenth"}}
	x := cfgs[i%len(cfgs)]
	c := caseDesc{Engine: "rate", MaxQPS: x.qps, IntervalMs: x.ms, Sessions: 8, Seed: int64(r.Uint64() >> 1)}
	c.HClass = "window-partial-drain/" + x.once
	c.Class = "rate/" + c.HClass
	once := int(onceOf(x.qps, time.Duration(x.ms)*time.Millisecond))
	for ph := 0; ph < 3; ph++ {
		d := 1 + r.Intn(once-1)
		switch r.Intn(6) {
		case 0:
			d = 0
		case 1:
			d = once + r.Intn(x.qps-once+1)
		}
		b := x.qps + 1 + r.Intn(x.qps+1)
		c.Steps = append(c.Steps, step{Op: "drain", Arg: d}, step{Op: "burst", Arg: b})
	}
	return c
}

// ---------- rate engine: Update of the refill interval (configured refill, wall-clock upper bound) ----------

// liveParked counts the tickers of finished rate cases of this process (parked at one tick per second).
var liveParked int64

// runUpdate creates a limiter (total or per-handler), drives a little traffic, changes the configuration with
// Update (a LARGER interval is the interesting direction; a smaller interval and a MaxQPS-only change are the
// controls) and then keeps a steady load of calls for a window of >= 6 new intervals. The statement's "refill of
// that interval" is the CONFIGURED refill: a time.Ticker never fires more often than its interval, so in a
// window of monotonic-clock length `elapsed` at most elapsed/interval + 3 refills can be observed (one that
// fired just before the window, one right at its start, one left in the stopped old ticker's channel), under any
// load - a slow machine only sees fewer. This is the only place where wall-clock time enters a C18 verdict, as an
// upper bound that load can only loosen.
func runUpdate(c caseDesc) *report {
	rp := &report{extra: map[string]interface{}{}}
	interval0 := time.Duration(c.IntervalMs) * time.Millisecond
	rs := &rateState{arrived: map[string]bool{}, passed: map[string]bool{}, handled: map[string]bool{}}
	curRate.Store(rs)
	handler := c.Mode == "handler"
	cfg := overloader.LimitConfig{QPSInterval: interval0}
	if !handler {
		cfg.MaxTotalQPS = int32(c.MaxQPS)
	}
	ov := overloader.New(cfg)
	srv := erpc.NewPeer(erpc.PeerConfig{}, rateArrive{}, ov, ratePassed{})
	rs.callRoute = srv.RouteCallFunc(RateCall)
	rs.pushRoute = srv.RoutePushFunc(RatePush)
	if handler {
		cfg.MaxHandlerQPS = []overloader.HandlerLimit{{ServiceMethod: rs.callRoute, MaxQPS: int32(c.MaxQPS)}}
		ov.Update(cfg) // creates the per-handler limiter (full bucket, short interval)
	}
	cur := cfg
	cli := erpc.NewPeer(erpc.PeerConfig{})
	var links []*bed.Link
	defer func() {
		park := cur
		park.QPSInterval = time.Second
		ov.Update(park)
		atomic.AddInt64(&liveParked, 1)
		for _, l := range links {
			l.CA.Sever(false)
		}
		srv.Close()
		cli.Close()
	}()
	for i := 0; i < 4; i++ {
		l, err := bed.Connect(cli, srv, erpc.DefaultProtoFunc(), erpc.DefaultProtoFunc(), nil)
		if err != nil {
			rp.inconclusive = err.Error()
			return rp
		}
		links = append(links, l)
	}
	var seq int64
	call := func(sess erpc.Session) {
		tok := fmt.Sprintf("u%d", atomic.AddInt64(&seq, 1))
		var res string
		if _, st := sess.Call(rs.callRoute, tok, &res, erpc.WithSetMeta("tok", tok)).Reply(); !st.OK() {
			atomic.AddInt64(&rp.rejected, 1)
		}
	}
	// a little traffic under the first configuration; every reply is in before the update
	var wg sync.WaitGroup
	for j := 0; j < c.MaxQPS/2+1; j++ {
		wg.Add(1)
		go func(j int) { defer wg.Done(); call(links[j%len(links)].A) }(j)
	}
	if !waitWG(&wg, watchdog) {
		rp.inconclusive = "warm-up calls incomplete after the watchdog"
		return rp
	}
	// the update
	newQPS, newInterval := c.MaxQPS, interval0
	st := c.Steps[0]
	switch st.Op {
	case "update-interval":
		newInterval = time.Duration(st.Arg) * time.Millisecond
	case "update-maxqps":
		newQPS = st.Arg
	default:
		core.Fatalf("unknown update step %q", st.Op)
	}
	cur.QPSInterval = newInterval
	if handler {
		cur.MaxHandlerQPS = []overloader.HandlerLimit{{ServiceMethod: rs.callRoute, MaxQPS: int32(newQPS)}}
	} else {
		cur.MaxTotalQPS = int32(newQPS)
	}
	ov.Update(cur)
	capacity := int64(c.MaxQPS) // tokens left from the old configuration are not cut by an update
	if int64(newQPS) > capacity {
		capacity = int64(newQPS)
	}
	once := onceOf(newQPS, newInterval)
	window := 6 * newInterval
	if window < 300*time.Millisecond {
		window = 300 * time.Millisecond
	}
	parked := atomic.LoadInt64(&liveParked)
	// the window: clock, ticks, admitted ... load ... admitted, ticks, clock
	tStart := time.Now()
	tb := overloader.VerifTicks()
	p0 := atomic.LoadInt64(&rs.nPassed)
	for g := 0; g < 8; g++ {
		wg.Add(1)
		go func(g int) {
			defer wg.Done()
			for time.Since(tStart) < window {
				call(links[g%len(links)].A)
				time.Sleep(500 * time.Microsecond)
			}
		}(g)
	}
	if !waitWG(&wg, watchdog+window) {
		rp.inconclusive = "steady load incomplete after the watchdog"
		return rp
	}
	p1 := atomic.LoadInt64(&rs.nPassed)
	ta := overloader.VerifTicks()
	elapsed := time.Since(tStart)
	allowed := int64(elapsed/newInterval) + 3 + parked*(int64(elapsed/time.Second)+2)
	ticks, admitted := ta-tb, p1-p0
	rp.evals = 2
	if ticks > allowed {
		rp.add("refill-too-fast", fmt.Sprintf("after Update(%s): %d refill ticks in a window of %v; interval in force %v allows at most %d (elapsed/interval + 3%s)",
			describeStep(st), ticks, elapsed.Round(time.Millisecond), newInterval, allowed, parkedNote(parked)), nil)
	}
	if bound := capacity + allowed*(once+1); admitted > bound {
		rp.add("rate-exceeded", fmt.Sprintf("after Update(%s): %d calls admitted in a window of %v; capacity %d + configured refill (%d ticks at most) * (once %d + 1) = %d",
			describeStep(st), admitted, elapsed.Round(time.Millisecond), capacity, allowed, once, bound), nil)
	}
	rp.admitted = admitted
	rp.extra["variant"], rp.extra["update"] = c.Mode, describeStep(st)
	rp.extra["interval_before_ms"], rp.extra["interval_in_force_ms"] = c.IntervalMs, int64(newInterval/time.Millisecond)
	rp.extra["window_ms"], rp.extra["ticks_in_window"], rp.extra["ticks_allowed"] = int64(elapsed/time.Millisecond), ticks, allowed
	rp.extra["admitted_in_window"], rp.extra["admitted_bound"] = admitted, capacity+allowed*(once+1)
	rp.extra["parked_tickers_of_earlier_cases"] = parked
	core.Add("rate_update_cases", 1)
	core.Add("rate_update_ticks_in_windows", ticks)
	core.Add("rate_update_ticks_allowed_in_windows", allowed)
	core.Add("rate_admitted", admitted)
	rp.sig = fmt.Sprintf("rate/%s/cap%d/int%dms/%s", c.HClass, c.MaxQPS, c.IntervalMs, describeStep(st))
	rp.nontrivial = admitted > 0 && ticks > 0 && atomic.LoadInt64(&rp.rejected) > 0
	return rp
}

func describeStep(st step) string {
	if st.Op == "update-interval" {
		return fmt.Sprintf("QPSInterval -> %dms", st.Arg)
	}
	return fmt.Sprintf("MaxQPS -> %d", st.Arg)
}

func parkedNote(n int64) string {
	if n == 0 {
		return ""
	}
	return fmt.Sprintf(" + %d parked one-per-second tickers of earlier cases", n)
}

func genUpdate(i int, r *core.Rand) caseDesc {
	c := caseDesc{Engine: "rate", Sessions: 4, Seed: int64(r.Uint64() >> 1)}
	c.Mode = []string{"total", "handler"}[i%2]
	c.MaxQPS = []int{20, 40}[r.Intn(2)]
	kind := []string{"larger", "larger", "smaller", "maxqps"}[(i/2)%4]
	switch kind {
	case "larger": // 5-10x larger, the window of 6 new intervals stays <= 1.5 s
		short := []int{20, 25, 40, 50}[r.Intn(4)]
		mult := []int{5, 8, 10}[r.Intn(3)]
		if short*mult > 250 {
			mult = 5
		}
		c.IntervalMs = short
		c.Steps = []step{{Op: "update-interval", Arg: short * mult}}
		c.HClass = "update-interval-larger/" + c.Mode
	case "smaller":
		c.IntervalMs = []int{200, 250}[r.Intn(2)]
		c.Steps = []step{{Op: "update-interval", Arg: c.IntervalMs / []int{5, 10}[r.Intn(2)]}}
		c.HClass = "update-interval-smaller/" + c.Mode
	default:
		c.IntervalMs = []int{25, 50}[r.Intn(2)]
		c.Steps = []step{{Op: "update-maxqps", Arg: []int{10, 60}[r.Intn(2)]}}
		c.HClass = "update-maxqps-only/" + c.Mode
	}
	c.Class = "rate/" + c.HClass
	return c
}

// ---------- rate engine: Update to a SHORTER interval (the quantum must follow the new interval) ----------

// runShorten: a limiter with an existing total and / or handler limit at a long interval, a little traffic,
// Update() to an interval 2 / 10 / 50 times shorter (same or different MaxQPS), then calls above the limit
// across several ticks of the new ticker. Logical bound: the calls admitted between the first call after the
// update and the last reply are at most capacity + k * (once(new MaxQPS, new interval) + 1), k = refill ticks
// observed (VerifTicks read before the first call and after the last reply). With two limiters in force the
// global tick counter counts both tickers; k is then also capped by the sound wall-clock direction already used
// for the update cases (one ticker fires at most elapsed/interval + 3 times in a window), which can only loosen.
func runShorten(c caseDesc) *report {
	rp := &report{extra: map[string]interface{}{}}
	interval0 := time.Duration(c.IntervalMs) * time.Millisecond
	rs := &rateState{arrived: map[string]bool{}, passed: map[string]bool{}, handled: map[string]bool{}}
	curRate.Store(rs)
	total := c.Mode == "total" || c.Mode == "both"
	handler := c.Mode == "handler" || c.Mode == "both"
	mk := func(qps int, interval time.Duration, route string) overloader.LimitConfig {
		cfg := overloader.LimitConfig{QPSInterval: interval}
		if total {
			cfg.MaxTotalQPS = int32(qps)
		}
		if handler && route != "" {
			cfg.MaxHandlerQPS = []overloader.HandlerLimit{{ServiceMethod: route, MaxQPS: int32(qps)}}
		}
		return cfg
	}
	ov := overloader.New(mk(c.MaxQPS, interval0, ""))
	srv := erpc.NewPeer(erpc.PeerConfig{}, rateArrive{}, ov, ratePassed{})
	rs.callRoute = srv.RouteCallFunc(RateCall)
	rs.pushRoute = srv.RoutePushFunc(RatePush)
	cur := mk(c.MaxQPS, interval0, rs.callRoute)
	if handler {
		ov.Update(cur) // the first Update introducing the handler limit (full bucket, long interval)
	}
	cli := erpc.NewPeer(erpc.PeerConfig{})
	var links []*bed.Link
	defer func() {
		park := cur
		park.QPSInterval = time.Second
		ov.Update(park)
		n := int64(len(park.MaxHandlerQPS))
		if total {
			n++
		}
		atomic.AddInt64(&liveParked, n)
		for _, l := range links {
			l.CA.Sever(false)
		}
		srv.Close()
		cli.Close()
	}()
	for i := 0; i < 4; i++ {
		l, err := bed.Connect(cli, srv, erpc.DefaultProtoFunc(), erpc.DefaultProtoFunc(), nil)
		if err != nil {
			rp.inconclusive = err.Error()
			return rp
		}
		links = append(links, l)
	}
	var seq int64
	call := func(sess erpc.Session) {
		tok := fmt.Sprintf("s%d", atomic.AddInt64(&seq, 1))
		var res string
		if _, st := sess.Call(rs.callRoute, tok, &res, erpc.WithSetMeta("tok", tok)).Reply(); !st.OK() {
			atomic.AddInt64(&rp.rejected, 1)
		}
	}
	var wg sync.WaitGroup
	for j := 0; j < c.MaxQPS/4+1; j++ { // a little traffic under the first configuration; all replies in before the update
		wg.Add(1)
		go func(j int) { defer wg.Done(); call(links[j%len(links)].A) }(j)
	}
	if !waitWG(&wg, watchdog) {
		rp.inconclusive = "warm-up calls incomplete after the watchdog"
		return rp
	}
	newInterval := time.Duration(c.Steps[0].Arg) * time.Millisecond
	newQPS := c.Steps[1].Arg
	cur = mk(newQPS, newInterval, rs.callRoute)
	ov.Update(cur)
	// the bucket never held more than the OLD capacity, an update adds no tokens, and refills are the only other
	// source: whatever the new capacity is, admitted <= old capacity + ticks * quantum
	capacity := int64(c.MaxQPS)
	once := onceOf(newQPS, newInterval)
	tickers := int64(0)
	if total {
		tickers++
	}
	if handler {
		tickers++
	}
	wantTicks := int64(c.Rounds) * tickers
	parked := atomic.LoadInt64(&liveParked)
	bound := func(k int64) int64 { return capacity + k*(once+1) }

	tStart := time.Now()
	tb := overloader.VerifTicks()
	p0 := atomic.LoadInt64(&rs.nPassed)
	var stop int32
	var fmu sync.Mutex
	for g := 0; g < 16; g++ { // demand well above any configured rate: what is admitted is decided by the limiter alone
		wg.Add(1)
		go func(g int) {
			defer wg.Done()
			for atomic.LoadInt32(&stop) == 0 {
				call(links[g%len(links)].A)
				runtime.Gosched()
			}
		}(g)
	}
	// traffic runs until enough refill ticks of the new ticker(s) have been OBSERVED (logical), watchdog => inconclusive;
	// meanwhile: admitted so far (an under-count) against the ticks so far, from the start of the window
	deadline := time.Now().Add(watchdog)
	timedOut := false
	for overloader.VerifTicks()-tb < wantTicks {
		if time.Now().After(deadline) {
			timedOut = true
			break
		}
		a := atomic.LoadInt64(&rs.nPassed) - p0
		k := overloader.VerifTicks() - tb
		if tickers == 1 && a > bound(k) {
			fmu.Lock()
			rp.add("rate-exceeded", fmt.Sprintf("after Update(QPSInterval %dms -> %dms, MaxQPS %d -> %d): %d calls admitted with %d refill ticks observed so far; capacity %d + ticks*(once %d + 1) = %d",
				c.IntervalMs, c.Steps[0].Arg, c.MaxQPS, newQPS, a, k, capacity, once, bound(k)), nil)
			fmu.Unlock()
		}
		time.Sleep(300 * time.Microsecond)
	}
	atomic.StoreInt32(&stop, 1)
	if !waitWG(&wg, watchdog) {
		rp.inconclusive = "load calls incomplete after the watchdog"
		return rp
	}
	if timedOut {
		rp.inconclusive = "the refill ticks of the new ticker were not observed (watchdog)"
		return rp
	}
	p1 := atomic.LoadInt64(&rs.nPassed)
	ta := overloader.VerifTicks()
	elapsed := time.Since(tStart)
	k := ta - tb
	kNote := "refill ticks observed"
	if tickers > 1 {
		// both tickers are in the global counter; one ticker cannot have fired more often than this
		if w := int64(elapsed/newInterval) + 3 + parked*(int64(elapsed/time.Second)+2); w < k {
			k = w
			kNote = fmt.Sprintf("ticks one ticker can have fired in %v (of %d observed for both tickers)", elapsed.Round(time.Millisecond), ta-tb)
		}
	}
	admitted := p1 - p0
	rp.evals++
	if admitted > bound(k) {
		fmu.Lock()
		rp.add("rate-exceeded", fmt.Sprintf("after Update(QPSInterval %dms -> %dms, MaxQPS %d -> %d): %d calls admitted between the first call and the last reply, %d %s; capacity %d + ticks*(once %d + 1) = %d",
			c.IntervalMs, c.Steps[0].Arg, c.MaxQPS, newQPS, admitted, k, kNote, capacity, once, bound(k)), nil)
		fmu.Unlock()
	}
	rp.admitted = admitted
	rp.extra["variant"] = c.Mode
	rp.extra["interval_ms"], rp.extra["max_qps"] = []int{c.IntervalMs, c.Steps[0].Arg}, []int{c.MaxQPS, newQPS}
	rp.extra["once_configured"], rp.extra["capacity"] = once, capacity
	rp.extra["ticks_observed"], rp.extra["ticks_used_in_bound"] = ta-tb, k
	rp.extra["admitted_in_window"], rp.extra["admitted_bound"] = admitted, bound(k)
	rp.extra["rejected"], rp.extra["window_ms"] = atomic.LoadInt64(&rp.rejected), int64(elapsed/time.Millisecond)
	core.Add("rate_shorten_cases", 1)
	core.Add("rate_shorten_ticks_observed", ta-tb)
	core.Add("rate_shorten_admitted", admitted)
	core.Add("rate_shorten_bound_total", bound(k))
	core.Add("rate_admitted", admitted)
	rp.sig = fmt.Sprintf("rate/%s/cap%d-%d/int%d-%dms", c.HClass, c.MaxQPS, newQPS, c.IntervalMs, c.Steps[0].Arg)
	rp.nontrivial = admitted > 0 && ta-tb > 0 && atomic.LoadInt64(&rp.rejected) > 0
	return rp
}

func genShorten(i int, r *core.Rand) caseDesc {
	c := caseDesc{Engine: "rate", Sessions: 4, Seed: int64(r.Uint64() >> 1), MaxQPS: 100}
	c.Mode = []string{"both", "total", "handler"}[i%3]
	type iv struct{ from, to, ratio int }
	x := [][]iv{{{100, 50, 2}, {80, 40, 2}}, {{1000, 100, 10}, {500, 50, 10}}, {{1000, 20, 50}, {500, 10, 50}}}[(i/3)%3][r.Intn(2)]
	c.IntervalMs = x.from
	if x.ratio == 2 {
		c.MaxQPS = 400 // a quantum well above the one-per-tick slack of the statement, or a factor of two drowns in it
	}
	newQPS := []int{c.MaxQPS, c.MaxQPS, c.MaxQPS * 6 / 10, c.MaxQPS * 2}[(i/9+r.Intn(2)*2)%4]
	c.Steps = []step{{Op: "update-interval", Arg: x.to}, {Op: "update-maxqps", Arg: newQPS}}
	c.Rounds = 12 // refill ticks of the new ticker to load across
	if x.ratio == 2 {
		c.Rounds = 30 // a factor of two needs a longer run to rise above the capacity term
	}
	if x.ratio == 50 {
		c.Rounds = 40 // 10..20 ms ticks: a longer run, so that the demand within it exceeds the bound
	}
	c.HClass = fmt.Sprintf("update-interval-shorter/%s-r%d", c.Mode, x.ratio)
	c.Class = "rate/" + c.HClass
	return c
}

// ---------- rate engine: Update of a rate limit x bucket level x burst placement ----------

type relMark struct {
	Tb, P, Ta int64
	Epoch     int   // number of Updates applied before this mark
	Ceil      int64 // most tokens the bucket can hold at this mark, as far as the statement lets the oracle assume
	Settled   bool  // Ceil is the capacity in force (a refill under the configuration in force has certainly been applied)
	Label     string
}

// runRelimit: a limiter (total or per-handler) is created with MaxQPS q0, its bucket is left full, partly drained
// or emptied, Update() changes MaxQPS (lowered or raised; optionally the interval too; optionally a second Update
// back), and bursts larger than the capacity arrive at once, as soon as the first refill under the new limit has
// certainly been applied, or several ticks later, with single ticks between further bursts. Every window between
// two marks of the same configuration is bounded in logical time:
//
//	admitted <= ceil(first mark) + ticks * (once(configuration in force) + 1)
//
// ticks = VerifTicks read before the first call of the window and after its last reply. ceil is the capacity in
// force, EXCEPT between an Update that lowered the limit and the first refill certainly applied after it, where it
// is the largest capacity since the last such point (the limiter applies a lowered capacity at its next refill, the
// statement does not say when a lowered capacity takes effect, so the tokens of the old capacity are not held
// against it before that; such windows are counted as observations). "Certainly applied": 3 refill ticks counted
// after Update() returned that cannot belong to another ticker - every counted tick starts after the Update and so
// refills under the new limit, at most one of the three can be a tick left in the channel of a ticker the Update
// stopped, and of two ticks of one ticker goroutine the first is complete when the second is counted. Tickers of
// earlier cases of the process are parked at one tick per second; what they can have contributed (elapsed/1s + 3
// each, the sound wall-clock direction: load only delays the decision) is subtracted first. Windows across an
// Update are not judged.
func runRelimit(c caseDesc) *report {
	rp := &report{extra: map[string]interface{}{}}
	iv := time.Duration(c.IntervalMs) * time.Millisecond
	rs := &rateState{arrived: map[string]bool{}, passed: map[string]bool{}, handled: map[string]bool{}}
	curRate.Store(rs)
	handler := c.Mode == "handler"
	direct := c.Sessions == 0
	method := "/limit-change/direct"
	mk := func(qps int, interval time.Duration) overloader.LimitConfig {
		cfg := overloader.LimitConfig{QPSInterval: interval}
		if handler {
			cfg.MaxHandlerQPS = []overloader.HandlerLimit{{ServiceMethod: method, MaxQPS: int32(qps)}}
		} else {
			cfg.MaxTotalQPS = int32(qps)
		}
		return cfg
	}
	parked := atomic.LoadInt64(&liveParked)
	qps := c.MaxQPS
	var ov *overloader.Overloader
	var links []*bed.Link
	var srv, cli erpc.Peer
	if direct {
		ov = overloader.New(mk(qps, iv))
	} else {
		if handler {
			ov = overloader.New(overloader.LimitConfig{QPSInterval: iv})
		} else {
			ov = overloader.New(mk(qps, iv))
		}
		srv = erpc.NewPeer(erpc.PeerConfig{}, rateArrive{}, ov, ratePassed{})
		rs.callRoute = srv.RouteCallFunc(RateCall)
		rs.pushRoute = srv.RoutePushFunc(RatePush)
		if handler {
			method = rs.callRoute
			ov.Update(mk(qps, iv)) // the Update that introduces the handler limit (full bucket)
		}
		cli = erpc.NewPeer(erpc.PeerConfig{})
	}
	defer func() {
		ov.Update(mk(qps, time.Second)) // park the ticker
		atomic.AddInt64(&liveParked, 1)
		for _, l := range links {
			l.CA.Sever(false)
		}
		if !direct {
			srv.Close()
			cli.Close()
		}
	}()
	for i := 0; i < c.Sessions; i++ {
		l, err := bed.Connect(cli, srv, erpc.DefaultProtoFunc(), erpc.DefaultProtoFunc(), nil)
		if err != nil {
			rp.inconclusive = err.Error()
			return rp
		}
		links = append(links, l)
	}
	r := core.NewRand(c.Seed, 78)
	var dAdmitted, dRefused int64
	var okCalls, errCalls, otherErr, pushes int64
	P := func() int64 {
		switch {
		case direct:
			return atomic.LoadInt64(&dAdmitted)
		case handler:
			return atomic.LoadInt64(&rs.nPassedCall) // pushes go to another handler: not limited, not counted
		}
		return atomic.LoadInt64(&rs.nPassed)
	}
	seq := 0
	issue := func(n int) bool {
		var wg sync.WaitGroup
		if direct {
			const G = 8
			for g := 0; g < G; g++ {
				k := n / G
				if g < n%G {
					k++
				}
				wg.Add(1)
				go func(g, k int) {
					defer wg.Done()
					ctx := fakeCtx{m: method}
					for j := 0; j < k; j++ {
						var st *erpc.Status
						if (g+j)&1 == 0 {
							st = ov.PostReadCallHeader(ctx)
						} else {
							st = ov.PostReadPushHeader(ctx)
						}
						if st.OK() {
							atomic.AddInt64(&dAdmitted, 1)
						} else {
							atomic.AddInt64(&dRefused, 1)
						}
					}
				}(g, k)
			}
			return waitWG(&wg, watchdog)
		}
		for j := 0; j < n; j++ {
			seq++
			tok := fmt.Sprintf("l%d", seq)
			sess := links[j%len(links)].A
			push := c.Kinds == "mix" && r.Intn(3) == 0
			wg.Add(1)
			go func() {
				defer wg.Done()
				if push {
					atomic.AddInt64(&pushes, 1)
					sess.Push(rs.pushRoute, tok, erpc.WithSetMeta("tok", tok))
					return
				}
				var res string
				_, st := sess.Call(rs.callRoute, tok, &res, erpc.WithSetMeta("tok", tok)).Reply()
				switch {
				case st.OK():
					atomic.AddInt64(&okCalls, 1)
				case strings.Contains(st.Msg(), "qps overload"):
					atomic.AddInt64(&errCalls, 1)
				default:
					atomic.AddInt64(&otherErr, 1)
				}
			}()
		}
		if !waitWG(&wg, watchdog) {
			return false
		}
		if c.Kinds == "mix" { // a push has no reply: the window ends when the server has dealt with every message
			return quiet()
		}
		return true
	}

	// configuration state of the oracle
	once := onceOf(qps, iv)
	ceil := int64(qps)
	settled, lowered := true, false
	epoch := 0
	var updAt time.Time
	var updTicks int64
	updNote := fmt.Sprintf("new limiter MaxQPS %d", qps)
	certainOwn := func() int64 {
		d := overloader.VerifTicks() - updTicks
		el := time.Since(updAt) // read after the ticks: an over-estimate of the time the parked tickers had
		return d - parked*(int64(el/time.Second)+3)
	}
	refresh := func() {
		if !settled && certainOwn() >= 3 {
			settled, ceil = true, int64(qps)
		}
	}
	waitFor := func(cond func() bool, extra time.Duration) bool {
		deadline := time.Now().Add(watchdog + extra)
		for !cond() {
			if time.Now().After(deadline) {
				return false
			}
			time.Sleep(300 * time.Microsecond)
		}
		return true
	}
	var marks []relMark
	var windows, settledWindows, lazy int64
	var lazyNote string
	mark := func(label string) {
		refresh()
		m := relMark{Epoch: epoch, Ceil: ceil, Settled: settled, Label: label}
		m.Tb = overloader.VerifTicks()
		m.P = P()
		m.Ta = overloader.VerifTicks()
		for _, o := range marks {
			if o.Epoch != m.Epoch {
				continue
			}
			a, dt := m.P-o.P, m.Ta-o.Tb
			rp.evals++
			windows++
			if o.Settled {
				settledWindows++
			}
			if bound := o.Ceil + dt*(once+1); a > bound {
				how := "capacity in force"
				if !o.Settled {
					how = "largest capacity since the last refill certainly applied"
				}
				rp.add("rate-exceeded", fmt.Sprintf("%s; window [%s .. %s]: %d admitted with %d refill ticks between the first message and the last reply; bound %s %d + ticks*(once %d + 1) = %d",
					updNote, o.Label, label, a, dt, how, o.Ceil, once, bound), nil)
			} else if !o.Settled && lowered && a > int64(qps)+dt*(once+1) {
				lazy++
				if lazyNote == "" {
					lazyNote = fmt.Sprintf("%s; window [%s .. %s]: %d admitted with %d refill ticks, new capacity %d + ticks*(once %d + 1) = %d (the first refill after the Update was not yet certain: not judged against the new capacity)",
						updNote, o.Label, label, a, dt, qps, once, int64(qps)+dt*(once+1))
				}
			}
		}
		marks = append(marks, m)
	}
	var bursts []map[string]interface{}
	updates := 0
	for si, st := range c.Steps {
		switch st.Op {
		case "drain", "burst":
			mark(fmt.Sprintf("step %d before %s", si+1, st.Op))
			before := marks[len(marks)-1]
			if !issue(st.Arg) {
				rp.inconclusive = fmt.Sprintf("step %d (%s %d): incomplete after the watchdog", si+1, st.Op, st.Arg)
				return rp
			}
			mark(fmt.Sprintf("step %d after %s of %d", si+1, st.Op, st.Arg))
			after := marks[len(marks)-1]
			bursts = append(bursts, map[string]interface{}{"step": si + 1, "op": st.Op, "messages": st.Arg, "admitted": after.P - before.P,
				"ticks_in_window": after.Ta - before.Tb, "capacity_term": before.Ceil, "capacity_in_force": qps, "refill_certainly_applied": before.Settled,
				"once": once, "bound": before.Ceil + (after.Ta-before.Tb)*(once+1)})
			if st.Op == "burst" {
				core.Add("rate_relimit_bursts", 1)
				if before.Settled && updates > 0 {
					core.Add("rate_relimit_bursts_judged_against_the_new_capacity", 1)
				}
			}
		case "update":
			refresh()
			prevCeil, prevQPS, prevIv := ceil, qps, iv
			qps = st.Arg
			if st.Arg2 > 0 {
				iv = time.Duration(st.Arg2) * time.Millisecond
			}
			updAt = time.Now() // before the Update: over-estimates the time the parked tickers had
			ov.Update(mk(qps, iv))
			updTicks = overloader.VerifTicks() // after the Update returned: every tick counted from here refills under the new limit
			epoch++
			updates++
			once = onceOf(qps, iv)
			ceil = int64(qps)
			if prevCeil > ceil {
				ceil = prevCeil
			}
			settled = ceil == int64(qps)
			lowered = int64(qps) < prevCeil
			updNote = fmt.Sprintf("after Update(MaxQPS %d -> %d, QPSInterval %v -> %v)", prevQPS, qps, prevIv, iv)
		case "settle":
			if !waitFor(func() bool { return certainOwn() >= 3 }, time.Duration(3+3*parked)*iv) {
				rp.inconclusive = fmt.Sprintf("step %d: the refills after the Update were not observed (watchdog)", si+1)
				return rp
			}
			refresh()
		case "ticks":
			start := overloader.VerifTicks()
			n := int64(st.Arg)
			if !waitFor(func() bool { return overloader.VerifTicks()-start >= n }, time.Duration(n)*iv) {
				rp.inconclusive = fmt.Sprintf("step %d: no refill tick observed (watchdog)", si+1)
				return rp
			}
		default:
			core.Fatalf("unknown limit-change step %q", st.Op)
		}
	}
	passed := P()
	rejected := atomic.LoadInt64(&dRefused)
	if !direct {
		if !quiet() {
			rp.inconclusive = "no quiescence after the last burst"
			return rp
		}
		all, handled := atomic.LoadInt64(&rs.nPassed), atomic.LoadInt64(&rs.nHandled)
		if handled != all {
			rp.add("handler-count-mismatch", fmt.Sprintf("%d messages passed the limiter, handlers ran %d times", all, handled), nil)
		}
		if pc := atomic.LoadInt64(&rs.nPassedCall); okCalls != pc && otherErr == 0 {
			rp.add("rejected-ok-reply", fmt.Sprintf("%d calls passed the limiter but %d calls completed with an OK status", pc, okCalls), nil)
		}
		rejected = errCalls
		if c.Kinds == "mix" {
			rejected = atomic.LoadInt64(&rs.nArrived) - all
		}
		core.Add("rate_error_replies", errCalls)
		rp.extra["calls_ok"], rp.extra["calls_error_reply"], rp.extra["calls_failing_otherwise"], rp.extra["pushes"] = okCalls, errCalls, otherErr, pushes
	}
	rp.admitted, rp.rejected = passed, rejected
	rp.extra["bursts"] = bursts
	rp.extra["windows_judged"], rp.extra["windows_judged_against_the_capacity_in_force"] = windows, settledWindows
	rp.extra["parked_tickers_of_earlier_cases"] = parked
	if lazy > 0 {
		rp.extra["windows_above_the_new_capacity_before_its_first_refill"] = lazy
		rp.extra["first_such_window"] = lazyNote
	}
	core.Add("rate_relimit_cases", 1)
	core.Add("rate_relimit_windows", windows)
	core.Add("rate_relimit_windows_judged_against_the_capacity_in_force", settledWindows)
	core.Add("rate_relimit_windows_above_a_lowered_capacity_before_its_first_refill", lazy)
	core.Add("rate_admitted", passed)
	core.Add("rate_rejected", rejected)
	drive := "sessions-" + c.Kinds
	if direct {
		drive = "direct"
	}
	last := c.MaxQPS
	var chain []string
	for _, st := range c.Steps {
		if st.Op == "update" {
			chain = append(chain, fmt.Sprintf("%d-%d", last, st.Arg))
			if st.Arg2 > 0 {
				chain[len(chain)-1] += fmt.Sprintf("@%dms", st.Arg2)
			}
			last = st.Arg
		}
	}
	rp.sig = fmt.Sprintf("rate/%s/%s/q%s/int%dms/%s", c.HClass, c.Place, strings.Join(chain, ","), c.IntervalMs, drive)
	rp.nontrivial = updates > 0 && passed > 0 && rejected > 0
	return rp
}

// genRelimit enumerates direction x bucket level x burst placement (18 combinations by index); the limits, the
// interval, total / per-handler limiter, real sessions (calls, or calls mixed with pushes) / direct drive of the
// admission hooks, an interval change in the same Update and a second Update back are drawn from the PRNG.
func genRelimit(i int, r *core.Rand) caseDesc {
	c := caseDesc{Engine: "rate", Seed: int64(r.Uint64() >> 1), Sessions: 4, Kinds: "call"}
	combo := i % 18
	dir := []string{"lower", "raise"}[combo%2]
	level := []string{"full", "partial", "empty"}[(combo/2)%3]
	c.Place = []string{"at-once", "first-refill", "ticks-later"}[(combo/6)%3]
	c.Mode = []string{"total", "handler"}[(i+i/18)%2]
	// {200,5}@20ms is the everyday case; {1000,50} and {400,100} have a refill quantum that changes with the limit
	// (a stale quantum shows across the single-tick bursts); {60,59} and {2,1} are the smallest possible changes
	pairs := [][2]int{{200, 5}, {100, 20}, {1000, 50}, {60, 59}, {2, 1}, {400, 100}, {30, 10}}
	p := pairs[r.Intn(len(pairs))]
	hi, lo := p[0], p[1]
	c.IntervalMs = []int{10, 20, 25}[r.Intn(3)]
	switch r.Intn(4) {
	case 0:
		c.Sessions = 0 // direct drive of PostReadCallHeader / PostReadPushHeader
	case 1:
		c.Kinds = "mix"
	}
	q0, q1 := hi, lo
	if dir == "raise" {
		q0, q1 = lo, hi
	}
	c.MaxQPS = q0
	maxBurst := 260
	if c.Sessions == 0 {
		maxBurst = 1300
	}
	burst := func() step {
		b := hi + 1 + r.Intn(20)
		if b > maxBurst {
			b = maxBurst - r.Intn(20)
		}
		return step{Op: "burst", Arg: b}
	}
	switch level {
	case "partial":
		d := 1 + r.Intn(q0)
		if dir == "lower" { // tokens left: just below, at, just above the new capacity, or half way
			left := []int{lo - 1, lo, lo + 1, (hi + lo) / 2}[r.Intn(4)]
			d = q0 - left
		}
		if d < 1 {
			d = 1
		}
		c.Steps = append(c.Steps, step{Op: "drain", Arg: d})
	case "empty":
		c.Steps = append(c.Steps, step{Op: "drain", Arg: q0 + 2})
	}
	up := step{Op: "update", Arg: q1}
	if r.Intn(5) == 0 { // the interval changes in the same Update (the ticker is replaced)
		up.Arg2 = []int{10, 20, 25, 40}[r.Intn(4)]
		if up.Arg2 == c.IntervalMs {
			up.Arg2 = 50
		}
	}
	c.Steps = append(c.Steps, up)
	switch c.Place {
	case "first-refill":
		c.Steps = append(c.Steps, step{Op: "settle"})
	case "ticks-later":
		c.Steps = append(c.Steps, step{Op: "settle"}, step{Op: "ticks", Arg: 2 + r.Intn(6)})
	}
	c.Steps = append(c.Steps, burst(), step{Op: "ticks", Arg: 1}, burst(), step{Op: "ticks", Arg: 2}, burst())
	if r.Intn(3) == 0 { // and back: the other direction, from whatever level the bucket has reached by then
		k := 3 + r.Intn(5)
		if dir == "raise" { // enough refills under the higher limit for the bucket to hold more than the lower one again
			if k += lo / int(onceOf(hi, time.Duration(c.IntervalMs)*time.Millisecond)); k > 30 {
				k = 30
			}
		}
		c.Steps = append(c.Steps, step{Op: "ticks", Arg: k}, step{Op: "update", Arg: q0})
		if r.Intn(3) != 0 {
			c.Steps = append(c.Steps, step{Op: "settle"})
		}
		c.Steps = append(c.Steps, burst(), step{Op: "ticks", Arg: 1}, burst())
		dir += map[string]string{"lower": "-then-raise", "raise": "-then-lower"}[dir]
	}
	c.HClass = fmt.Sprintf("limit-change/%s-%s/%s", dir, level, c.Mode)
	c.Class = "rate/" + c.HClass
	return c
}

// ---------- rate engine: high contention on an emptying bucket ----------

type ctnPassed struct{ n *int64 }

func (ctnPassed) Name() string { return "c18-contention-passed" }
func (p ctnPassed) PostReadCallHeader(erpc.ReadCtx) *erpc.Status {
	atomic.AddInt64(p.n, 1)
	return nil
}
func (p ctnPassed) PostReadPushHeader(erpc.ReadCtx) *erpc.Status {
	atomic.AddInt64(p.n, 1)
	return nil
}

// runContention lets many takers arrive at the same bucket in the same instant, with NO refill in the window:
// admitted per round <= capacity, exactly (no slack: the slack of the statement is per refill tick, and a round
// in which the tick counter moved is dropped as inconclusive). Every round uses a bucket of its own (one
// per-handler limit per round, all created full at once; the interval is the longest the limiter supports, 1 s,
// and the buckets are reused after a pause that lets each of them see its tick). mode "direct": the admission
// hook of the real plug-in object (PostReadCallHeader / PostReadPushHeader) driven from c.G goroutines released
// by a spin barrier; mode "sessions": one call per real session, c.G sessions, released the same way.
func runContention(c caseDesc) *report {
	rp := &report{extra: map[string]interface{}{}}
	const buckets = 400
	capacity := int64(c.MaxQPS)
	cfg := overloader.LimitConfig{QPSInterval: time.Second}
	methods := make([]string, buckets)
	for i := range methods {
		methods[i] = fmt.Sprintf("/ctn/m%d", i)
		cfg.MaxHandlerQPS = append(cfg.MaxHandlerQPS, overloader.HandlerLimit{ServiceMethod: methods[i], MaxQPS: int32(c.MaxQPS)})
	}
	ov := overloader.New(cfg)
	defer atomic.AddInt64(&liveParked, buckets) // their tickers stay alive at one tick per second
	var passed int64
	var links []*bed.Link
	if c.Mode == "sessions" {
		srv := erpc.NewPeer(erpc.PeerConfig{}, ov, ctnPassed{&passed})
		srv.SetUnknownCall(func(ctx erpc.UnknownCallCtx) (interface{}, *erpc.Status) { return nil, nil })
		cli := erpc.NewPeer(erpc.PeerConfig{})
		defer func() {
			for _, l := range links {
				l.CA.Sever(false)
			}
			srv.Close()
			cli.Close()
		}()
		for i := 0; i < c.G; i++ {
			l, err := bed.Connect(cli, srv, erpc.DefaultProtoFunc(), erpc.DefaultProtoFunc(), nil)
			if err != nil {
				rp.inconclusive = err.Error()
				return rp
			}
			links = append(links, l)
		}
	}
	var rounds, dropped, exceeded, maxAdmitted, exhausted int64
	var firstDetail string
	lastPass := time.Now()
	for r := 0; r < c.Rounds; r++ {
		if r > 0 && r%buckets == 0 {
			// every bucket has been emptied: let each see one refill (1 s interval). Sensitivity only - a bucket that
			// is not full again just admits less.
			if d := 1200*time.Millisecond - time.Since(lastPass); d > 0 {
				time.Sleep(d)
			}
			lastPass = time.Now()
		}
		m := methods[r%buckets]
		var admitted int64
		var start int32
		var wg sync.WaitGroup
		p0 := atomic.LoadInt64(&passed)
		tb := overloader.VerifTicks()
		for g := 0; g < c.G; g++ {
			wg.Add(1)
			go func(g int) {
				defer wg.Done()
				if c.Mode == "sessions" {
					for atomic.LoadInt32(&start) == 0 {
					}
					var res []byte
					links[g].A.Call(m, "x", &res).Reply()
					return
				}
				ctx := fakeCtx{m: m}
				for atomic.LoadInt32(&start) == 0 {
				}
				for k := 0; k < c.Burst; k++ {
					var st *erpc.Status
					if (g+k)&1 == 0 {
						st = ov.PostReadCallHeader(ctx)
					} else {
						st = ov.PostReadPushHeader(ctx)
					}
					if st.OK() {
						atomic.AddInt64(&admitted, 1)
					}
				}
			}(g)
		}
		runtime.Gosched()
		atomic.StoreInt32(&start, 1)
		if !waitWG(&wg, watchdog) {
			rp.inconclusive = fmt.Sprintf("round %d did not finish", r)
			return rp
		}
		if c.Mode == "sessions" {
			admitted = atomic.LoadInt64(&passed) - p0
		}
		if overloader.VerifTicks() != tb {
			dropped++ // a refill tick (of any bucket) inside the window: this round says nothing
			continue
		}
		rounds++
		if admitted > maxAdmitted {
			maxAdmitted = admitted
		}
		if admitted >= capacity {
			exhausted++
		}
		if admitted > capacity {
			exceeded++
			if firstDetail == "" {
				firstDetail = fmt.Sprintf("round %d: %d admissions from one bucket of capacity %d with no refill tick in the window (%d concurrent takers, %s)", r, admitted, capacity, c.G, c.Mode)
			}
		}
	}
	rp.evals = rounds
	if exceeded > 0 {
		rp.add("burst-over-capacity", fmt.Sprintf("%s; %d of %d rounds over capacity, most admitted in one round %d", firstDetail, exceeded, rounds, maxAdmitted), nil)
	}
	if rounds*2 < int64(c.Rounds) && exceeded == 0 {
		rp.inconclusive = fmt.Sprintf("only %d of %d rounds without a refill tick in the window", rounds, c.Rounds)
	}
	rp.admitted = maxAdmitted
	rp.extra["capacity"], rp.extra["takers"], rp.extra["mode"] = capacity, c.G, c.Mode
	rp.extra["rounds_judged"], rp.extra["rounds_dropped_for_a_tick"], rp.extra["rounds_exhausting_the_bucket"] = rounds, dropped, exhausted
	rp.extra["rounds_over_capacity"], rp.extra["max_admitted_in_a_round"] = exceeded, maxAdmitted
	core.Add("rate_contention_cases", 1)
	core.Add("rate_contention_rounds", rounds)
	core.Add("rate_contention_rounds_dropped_for_a_tick", dropped)
	core.Add("rate_contention_rounds_exhausting_the_bucket", exhausted)
	rp.sig = fmt.Sprintf("rate/%s/cap%d", c.HClass, c.MaxQPS)
	rp.nontrivial = exhausted > 0
	return rp
}

func genContention(i int, r *core.Rand) caseDesc {
	c := caseDesc{Engine: "rate", Seed: int64(r.Uint64() >> 1)}
	c.MaxQPS = []int{5, 10, 20, 8}[i%4]
	if i%4 == 3 {
		c.Mode, c.G, c.Rounds, c.Burst = "sessions", 32, 400, 1
		c.HClass = "contention-sessions/s32"
	} else {
		c.Mode, c.G, c.Rounds, c.Burst = "direct", []int{32, 64, 48}[i%3], 3000, 3
		c.HClass = fmt.Sprintf("contention-direct/g%d", c.G)
	}
	if *tier == "thorough" {
		c.Rounds *= 4
	}
	c.Class = "rate/" + c.HClass
	return c
}

// fakeCtx lets the header hook be driven directly: the limiter only asks for the service method.
type fakeCtx struct {
	erpc.ReadCtx
	m string
}

func (f fakeCtx) ServiceMethod() string { return f.m }

// runRateDirect hammers the exported header hooks from 16 goroutines.
func runRateDirect(c caseDesc) *report {
	rp := &report{extra: map[string]interface{}{}}
	interval := time.Duration(c.IntervalMs) * time.Millisecond
	t0 := overloader.VerifTicks()
	cfg := overloader.LimitConfig{QPSInterval: interval, MaxTotalQPS: int32(c.MaxQPS)}
	ov := overloader.New(cfg)
	defer func() {
		park := cfg
		park.QPSInterval = time.Second
		ov.Update(park)
		atomic.AddInt64(&liveParked, int64(1+len(park.MaxHandlerQPS)))
	}()
	capacity, once := int64(c.MaxQPS), onceOf(c.MaxQPS, interval)
	var admitted, refused int64
	var wg sync.WaitGroup
	var fmu sync.Mutex
	check := func() {
		a := atomic.LoadInt64(&admitted)
		t := overloader.VerifTicks()
		if a > capacity+(t-t0)*(once+1) {
			fmu.Lock()
			rp.add("rate-exceeded", fmt.Sprintf("direct: %d admissions with %d refill ticks so far; bound capacity %d + ticks*(once %d + 1) = %d", a, t-t0, capacity, once, capacity+(t-t0)*(once+1)), nil)
			fmu.Unlock()
		}
	}
	for g := 0; g < c.G; g++ {
		wg.Add(1)
		go func(g int) {
			defer wg.Done()
			r := core.NewRand(c.Seed, int64(g))
			ctx := fakeCtx{m: "/x"}
			spin := 0
			for i := 0; i < c.Iter; i++ {
				var st *erpc.Status
				if i&1 == 0 {
					st = ov.PostReadCallHeader(ctx)
				} else {
					st = ov.PostReadPushHeader(ctx)
				}
				if st.OK() {
					atomic.AddInt64(&admitted, 1)
				} else {
					atomic.AddInt64(&refused, 1)
				}
				if i&255 == 0 {
					check()
					spin = r.Intn(4)
				}
				switch spin {
				case 1:
					runtime.Gosched()
				case 2:
					if i&63 == 0 {
						time.Sleep(time.Duration(1+r.Intn(50)) * time.Microsecond)
					}
				case 3:
					if !st.OK() && i&7 == 0 { // back off towards the next refill: keeps the bucket non-empty at tick time
						time.Sleep(interval / 2)
					}
				}
			}
		}(g)
	}
	if !waitWG(&wg, 3*watchdog) {
		rp.inconclusive = "direct hammer did not finish"
		return rp
	}
	check()
	rp.evals = int64(c.G*c.Iter/256 + 1)
	rp.admitted, rp.rejected = admitted, refused
	rp.extra["admitted"] = admitted
	rp.extra["refused"] = refused
	rp.extra["ticks"] = overloader.VerifTicks() - t0
	core.Add("rate_direct_admitted", admitted)
	core.Add("rate_direct_refused", refused)
	rp.sig = fmt.Sprintf("rate/direct/cap%d/int%dms", c.MaxQPS, c.IntervalMs)
	rp.nontrivial = admitted > 0 && refused > 0
	return rp
}

func genRate(i int, r *core.Rand) caseDesc {
	caps := []int{1, 3, 10, 50, 200}
	ints := []int{2, 5, 10, 100, 1000}
	c := caseDesc{Engine: "rate", MaxQPS: caps[i%len(caps)], IntervalMs: ints[(i/len(caps))%len(ints)], Seed: int64(r.Uint64() >> 1)}
	if i%8 == 7 {
		c.HClass, c.Class = "direct", "rate/direct"
		c.G, c.Iter = 16, 6000
		if *tier == "thorough" {
			c.Iter = 30000
		}
		c.IntervalMs = []int{1, 2, 5}[r.Intn(3)]
		c.MaxQPS = []int{100, 1000, 5000, 20000}[r.Intn(4)]
		return c
	}
	c.Kinds = []string{"call", "push", "mix", "mix"}[r.Intn(4)]
	c.Sessions = []int{1, 4, 16}[r.Intn(3)]
	c.Rounds = 3 + r.Intn(4)
	c.Burst = []int{1, c.MaxQPS, c.MaxQPS + 1, 2*c.MaxQPS + 3, 40}[r.Intn(5)]
	if c.Burst > 260 {
		c.Burst = 260
	}
	c.PauseTicks = []int{0, 1, 3, -1}[r.Intn(4)]
	c.HClass = "burst-" + c.Kinds
	if c.Kinds != "push" && r.Intn(3) == 0 {
		c.HandlerQPS = 1 + c.MaxQPS/2
		c.HClass += "-handlerlimit"
	}
	if c.PauseTicks < 0 {
		c.HClass += "-paced"
	}
	c.Class = "rate/" + c.HClass
	return c
}

// ---------- driver ----------

func fpOf(c caseDesc, symptom string) string {
	switch c.Engine {
	case "conn":
		return fmt.Sprintf("%s/conn/%s-%s/%s", *prop, c.Mode, c.HClass, symptom)
	case "rate":
		return fmt.Sprintf("%s/rate/%s/%s", *prop, c.HClass, symptom)
	}
	return fmt.Sprintf("%s/%s/%s/%s", *prop, c.Engine, c.HClass, symptom)
}

var minimised = map[string]bool{}

func execute(id string, c caseDesc) {
	if os.Getenv("C18_TIMING") != "" {
		t := time.Now()
		defer func() { fmt.Fprintf(os.Stderr, "TIMING %s %s %.2fs\n", id, c.Class, time.Since(t).Seconds()) }()
	}
	core.Begin(id, c)
	if c.Engine == "lin" {
		runLin(id, c)
		return
	}
	var rp *report
	switch {
	case c.Engine == "conn" && c.Mode == "seq":
		rp = runSeq(c)
	case c.Engine == "conn":
		rp = runConc(c)
	case strings.HasPrefix(c.HClass, "contention-"):
		rp = runContention(c)
	case strings.HasPrefix(c.HClass, "limit-change/"):
		rp = runRelimit(c)
	case strings.HasPrefix(c.HClass, "update-interval-shorter/"):
		rp = runShorten(c)
	case strings.HasPrefix(c.HClass, "update-"):
		rp = runUpdate(c)
	case strings.HasPrefix(c.HClass, "window-"):
		rp = runWindow(c)
	case c.HClass == "direct":
		rp = runRateDirect(c)
	default:
		rp = runRate(c)
	}
	core.Add("evaluations", rp.evals)
	core.Add(c.Engine+"_cases", 1)
	if c.Engine == "conn" {
		core.Add("conn_admitted", rp.admitted)
		core.Add("conn_rejected", rp.rejected)
		core.Add("conn_sessions_ended_by_history", rp.ended)
		core.Add("conn_probe_calls_ok", rp.probesOK)
		core.Max("conn_max_admitted_live", int64(rp.maxLive))
	}
	if rp.nontrivial {
		core.Distinct("nontrivial", rp.sig)
	}
	if os.Getenv("C18_TIMING") != "" && c.Engine == "rate" {
		fmt.Fprintf(os.Stderr, "RATE %s %+v findings=%v inconclusive=%q\n", rp.sig, rp.extra, rp.findings, rp.inconclusive)
	}
	core.Sample(map[string]interface{}{"case": c, "admitted": rp.admitted, "rejected": rp.rejected, "observed": rp.extra, "trace": rp.trace})
	if len(rp.findings) == 0 {
		if rp.inconclusive != "" {
			core.Result(core.R{ID: id, Verdict: core.Inconclusive, What: rp.inconclusive, Sig: rp.sig})
			return
		}
		core.Result(core.R{ID: id, Verdict: core.Held, Sig: rp.sig, Nontrivial: rp.nontrivial})
		return
	}
	for i, f := range rp.findings {
		rid := id
		if i > 0 {
			rid = fmt.Sprintf("%s#%d", id, i)
			core.Begin(rid, c)
		}
		fp := fpOf(c, f.Symptom)
		wit := map[string]interface{}{"detail": f.Detail, "trace": rp.trace, "observed": rp.extra}
		if f.Extra != nil {
			wit["events"] = f.Extra
		}
		desc := c
		if c.Engine == "conn" && c.Mode == "seq" && !minimised[fp] && *replay == "" {
			minimised[fp] = true
			if m, mr := minimise(c, f.Symptom); mr != nil {
				desc = m
				wit["minimal_history"] = m.Steps
				wit["minimal_limit"] = m.N
				wit["minimal_trace"] = mr.trace
				for _, mf := range mr.findings {
					if mf.Symptom == f.Symptom {
						wit["minimal_detail"] = mf.Detail
					}
				}
			}
		}
		core.Result(core.R{ID: rid, Verdict: core.Violated, FP: fp, What: fmt.Sprintf("%s %s: %s", c.Class, f.Symptom, f.Detail), Witness: wit, Desc: desc, Sig: rp.sig})
	}
}

func main() {
	flag.Parse()
	core.Prop = *prop
	wire.RegFilters()
	bed.Init("OFF")
	erpc.SetLoggerOutputter(discard{})

	if *replay != "" {
		b, err := os.ReadFile(*replay)
		if err != nil {
			core.Fatalf("replay: %v", err)
		}
		var f struct {
			Desc caseDesc `json:"desc"`
		}
		if err := json.Unmarshal(b, &f); err != nil || f.Desc.Engine == "" {
			core.Fatalf("replay: no case description in %s (%v)", *replay, err)
		}
		execute("replay", f.Desc)
		core.Finish()
		return
	}

	nSeq, nConc, nLin, linPer, nRate := 130, 24, 20, 60, 24
	nWin, nUpd, nShort := 8, 8, 12
	nRelimit := 32 // a multiple of the quick tier's 16 batches: the batch of every later job is unchanged
	if *tier == "thorough" {
		nSeq, nConc, nLin, linPer, nRate = 4400, 600, 400, 100, 500
		nWin, nUpd, nShort = 128, 128, 144
		nRelimit = 576
		minBudget = 80
	}
	type job struct {
		id string
		c  caseDesc
	}
	var jobs []job
	r := core.NewRand(*seed, 18)
	// the rate cases that read the process-global tick counter most closely come first (windowed, then update,
	// then shorten): few or no tickers of earlier rate cases of the process are alive yet, and those are accounted for
	rw := core.NewRand(*seed, 181)
	for i := 0; i < nWin; i++ {
		jobs = append(jobs, job{fmt.Sprintf("win%04d", i), genWindow(i, rw)})
	}
	ru := core.NewRand(*seed, 182)
	for i := 0; i < nUpd; i++ {
		jobs = append(jobs, job{fmt.Sprintf("upd%04d", i), genUpdate(i, ru)})
	}
	rs := core.NewRand(*seed, 183)
	for i := 0; i < nShort; i++ {
		jobs = append(jobs, job{fmt.Sprintf("short%04d", i), genShorten(i, rs)})
	}
	// limit-change cases: still early in the process (the tickers parked by the few rate cases before them are
	// accounted for when they decide that a refill of their own limiter has certainly been applied)
	rl := core.NewRand(*seed, 185)
	for i := 0; i < nRelimit; i++ {
		jobs = append(jobs, job{fmt.Sprintf("relim%04d", i), genRelimit(i, rl)})
	}
	for i := 0; i < nSeq; i++ {
		c := genSeq(seqClasses[i%len(seqClasses)], r)
		c.Seed = int64(r.Uint64() >> 1)
		jobs = append(jobs, job{fmt.Sprintf("seq%04d", i), c})
	}
	for i := 0; i < nConc; i++ {
		jobs = append(jobs, job{fmt.Sprintf("conc%04d", i), genConc(concClasses[i%len(concClasses)], r)})
	}
	for i := 0; i < nLin; i++ {
		cl := linClasses[i%len(linClasses)]
		jobs = append(jobs, job{fmt.Sprintf("lin%04d", i), caseDesc{Engine: "lin", HClass: cl, Class: "lin/" + cl, Histories: linPer, Seed: int64(r.Uint64() >> 1)}})
	}
	for i := 0; i < nRate; i++ {
		jobs = append(jobs, job{fmt.Sprintf("rate%04d", i), genRate(i, r)})
	}
	// last in every process: they leave hundreds of one-per-second tickers behind
	nCtn := 8
	if *tier == "thorough" {
		nCtn = 64
	}
	rc := core.NewRand(*seed, 184)
	for i := 0; i < nCtn; i++ {
		jobs = append(jobs, job{fmt.Sprintf("ctn%04d", i), genContention(i, rc)})
	}
	for i, j := range jobs {
		if i%*nbatch != *batch {
			continue
		}
		if only := os.Getenv("C18_ONLY"); only != "" && !strings.HasPrefix(j.id, only) { // development aid
			continue
		}
		execute(j.id, j.c)
	}
	core.Finish()
}
