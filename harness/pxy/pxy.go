// Package pxy builds the proxy topology used by the C19 and C15 engines: a caller peer, a peer
// running plugin/proxy, a forwarder (sessions of a client peer, or mixer/multiclient over loopback
// TCP) and two instrumented backend peers whose handlers are driven by a plan table.
package pxy

import (
	"encoding/json"
	"fmt"
	"net"
	"os"
	"strings"
	"sync"
	"sync/atomic"
	"time"

	erpc "github.com/henrylee2cn/erpc/v6"
	"github.com/henrylee2cn/erpc/v6/mixer/multiclient"
	"github.com/henrylee2cn/erpc/v6/plugin/proxy"
	"github.com/henrylee2cn/erpc/v6/proto/pbproto/pb"

	"verifharness/bed"
	"verifharness/memconn"
	"verifharness/protos"
	"verifharness/quiesce"
)

// KV is one metadata pair.
type KV struct {
	K string `json:"k"`
	V string `json:"v"`
}

// PidKey is the metadata key carrying the plan id.
const PidKey = "Pid"

// Obs is what a backend handler saw for one request.
type Obs struct {
	Backend int    `json:"backend"`
	Push    bool   `json:"push"`
	Kind    string `json:"kind"`
	Method  string `json:"method"`
	Meta    []KV   `json:"meta"`
	Body    []byte `json:"-"`
	Codec   byte   `json:"codec"`
	RealIP  string `json:"real_ip"`
}

// Plan tells the backend handlers how to answer the requests carrying its id and collects
// what they observed.
type Plan struct {
	ID     string
	Stat   *protos.Triple // handler status (nil = OK)
	RMeta  []KV           // reply metadata
	RAdd   bool           // AddMeta (keeps duplicates) instead of SetMeta
	RCodec byte           // reply body codec set by the handler (0 = leave)
	Reply  string         // "echo" (default), "empty", "big"
	Panic  bool           // handler panics
	Park   chan struct{}  // if non-nil the handler waits for it to be closed

	arrived chan struct{}
	mu      sync.Mutex
	obs     []Obs
}

var plans sync.Map // id -> *Plan

// NewPlan registers a plan.
func NewPlan(id string) *Plan {
	p := &Plan{ID: id, arrived: make(chan struct{}, 64)}
	plans.Store(id, p)
	return p
}

// Drop removes the plan from the table.
func (p *Plan) Drop() { plans.Delete(p.ID) }

// Observations returns a copy of the observations so far.
func (p *Plan) Observations() []Obs {
	p.mu.Lock()
	defer p.mu.Unlock()
	return append([]Obs(nil), p.obs...)
}

// Count returns the number of handler invocations on a backend (-1: all backends).
func (p *Plan) Count(backend int) int {
	p.mu.Lock()
	defer p.mu.Unlock()
	n := 0
	for _, o := range p.obs {
		if backend < 0 || o.Backend == backend {
			n++
		}
	}
	return n
}

// Arrived strobes once per handler entry.
func (p *Plan) Arrived() <-chan struct{} { return p.arrived }

// Backend is one instrumented backend peer.
type Backend struct {
	Idx    int
	Peer   erpc.Peer
	Calls  int64 // handler invocations (calls and pushes), atomically
	Routes map[string]string
}

var backends sync.Map // erpc.Peer -> *Backend

// Arg is the body type for the json / xml / form kinds.
type Arg struct {
	Tok string `json:"tok" xml:"tok" form:"tok"`
	Pay string `json:"pay" xml:"pay" form:"pay"`
	N   int    `json:"n" xml:"n" form:"n"`
}

// TypedKinds are the typed body kinds served by registered handlers.
var TypedKinds = []string{"json", "xml", "form", "plain", "pb"}

type inCtx interface {
	Peer() erpc.Peer
	PeekMeta(key string) []byte
	VisitMeta(f func(key, value []byte))
	ServiceMethod() string
	GetBodyCodec() byte
	RealIP() string
}

type outCtx interface {
	AddMeta(key, value string)
	SetMeta(key, value string)
	SetBodyCodec(byte)
}

func canon(v interface{}) []byte {
	switch x := v.(type) {
	case []byte:
		return append([]byte(nil), x...)
	case *[]byte:
		if x == nil {
			return nil
		}
		return append([]byte(nil), *x...)
	case *string:
		return []byte(*x)
	}
	b, _ := json.Marshal(v)
	return b
}

// enter records the observation and returns the plan (nil when the request carries none).
func enter(ctx inCtx, kind string, push bool, arg interface{}) (*Plan, *Backend) {
	var be *Backend
	if v, ok := backends.Load(ctx.Peer()); ok {
		be = v.(*Backend)
		atomic.AddInt64(&be.Calls, 1)
	}
	v, ok := plans.Load(string(ctx.PeekMeta(PidKey)))
	if !ok {
		return nil, be
	}
	p := v.(*Plan)
	o := Obs{Push: push, Kind: kind, Method: ctx.ServiceMethod(), Codec: ctx.GetBodyCodec(), RealIP: ctx.RealIP(), Body: canon(arg)}
	if be != nil {
		o.Backend = be.Idx
	}
	ctx.VisitMeta(func(k, v []byte) { o.Meta = append(o.Meta, KV{string(k), string(v)}) })
	p.mu.Lock()
	p.obs = append(p.obs, o)
	p.mu.Unlock()
	select {
	case p.arrived <- struct{}{}:
	default:
	}
	if p.Park != nil {
		<-p.Park
	}
	if p.Panic {
		panic("boom")
	}
	return p, be
}

func answer(p *Plan, out outCtx) *erpc.Status {
	if p == nil {
		return nil
	}
	for _, kv := range p.RMeta {
		if p.RAdd {
			out.AddMeta(kv.K, kv.V)
		} else {
			out.SetMeta(kv.K, kv.V)
		}
	}
	if p.RCodec != 0 {
		out.SetBodyCodec(p.RCodec)
	}
	if p.Stat != nil {
		return erpc.NewStatus(p.Stat.Code, p.Stat.Msg, p.Stat.Cause)
	}
	return nil
}

// ReplyBytes is the reply body the bytes handlers produce for a request body.
func ReplyBytes(mode string, body []byte) []byte {
	switch mode {
	case "empty":
		return []byte{}
	case "big":
		out := make([]byte, 0, 100000)
		out = append(out, "big:"...)
		for len(out) < 100000 {
			out = append(out, body...)
			out = append(out, '#')
		}
		return out
	}
	return append([]byte("re:"), body...)
}

func unknownCall(ctx erpc.UnknownCallCtx) (interface{}, *erpc.Status) {
	body := append([]byte(nil), ctx.InputBodyBytes()...)
	p, _ := enter(ctx, "bytes", false, body)
	if st := answer(p, ctx); st != nil {
		return nil, st
	}
	mode := ""
	if p != nil {
		mode = p.Reply
	}
	return ReplyBytes(mode, body), nil
}

func unknownPush(ctx erpc.UnknownPushCtx) *erpc.Status {
	body := append([]byte(nil), ctx.InputBodyBytes()...)
	p, _ := enter(ctx, "bytes", true, body)
	if p != nil && p.Stat != nil {
		return erpc.NewStatus(p.Stat.Code, p.Stat.Msg, p.Stat.Cause)
	}
	return nil
}

// Registered handlers (named functions: the route name is derived from the function name).

func Tbytes(ctx erpc.CallCtx, arg *[]byte) ([]byte, *erpc.Status) {
	body := append([]byte(nil), *arg...)
	p, _ := enter(ctx, "rbytes", false, body)
	if st := answer(p, ctx); st != nil {
		return nil, st
	}
	mode := ""
	if p != nil {
		mode = p.Reply
	}
	return ReplyBytes(mode, body), nil
}

func replyArg(a *Arg) *Arg { return &Arg{Tok: "R:" + a.Tok, Pay: a.Pay + "|" + a.Tok, N: a.N + 1} }

func tArg(kind string, ctx erpc.CallCtx, arg *Arg) (*Arg, *erpc.Status) {
	cp := *arg // string fields may alias receive buffers: copy at entry
	cp.Tok, cp.Pay = string([]byte(arg.Tok)), string([]byte(arg.Pay))
	p, _ := enter(ctx, kind, false, &cp)
	if st := answer(p, ctx); st != nil {
		return nil, st
	}
	return replyArg(&cp), nil
}

func Tjson(ctx erpc.CallCtx, arg *Arg) (*Arg, *erpc.Status) { return tArg("json", ctx, arg) }
func Txml(ctx erpc.CallCtx, arg *Arg) (*Arg, *erpc.Status)  { return tArg("xml", ctx, arg) }
func Tform(ctx erpc.CallCtx, arg *Arg) (*Arg, *erpc.Status) { return tArg("form", ctx, arg) }

func Tplain(ctx erpc.CallCtx, arg *string) (*string, *erpc.Status) {
	s := string([]byte(*arg))
	p, _ := enter(ctx, "plain", false, &s)
	if st := answer(p, ctx); st != nil {
		return nil, st
	}
	r := "R:" + s
	return &r, nil
}

func Tpb(ctx erpc.CallCtx, arg *pb.Payload) (*pb.Payload, *erpc.Status) {
	cp := &pb.Payload{ServiceMethod: string([]byte(arg.ServiceMethod)), Body: append([]byte(nil), arg.Body...), Seq: arg.Seq}
	p, _ := enter(ctx, "pb", false, cp)
	if st := answer(p, ctx); st != nil {
		return nil, st
	}
	return &pb.Payload{ServiceMethod: "R:" + cp.ServiceMethod, Body: append([]byte("re:"), cp.Body...), Seq: cp.Seq + 1}, nil
}

func pArg(kind string, ctx erpc.PushCtx, arg *Arg) *erpc.Status {
	cp := *arg
	cp.Tok, cp.Pay = string([]byte(arg.Tok)), string([]byte(arg.Pay))
	enter(ctx, kind, true, &cp)
	return nil
}

func Pjson(ctx erpc.PushCtx, arg *Arg) *erpc.Status { return pArg("json", ctx, arg) }
func Pxml(ctx erpc.PushCtx, arg *Arg) *erpc.Status  { return pArg("xml", ctx, arg) }
func Pplain(ctx erpc.PushCtx, arg *string) *erpc.Status {
	s := string([]byte(*arg))
	enter(ctx, "plain", true, &s)
	return nil
}
func Ppb(ctx erpc.PushCtx, arg *pb.Payload) *erpc.Status {
	cp := &pb.Payload{ServiceMethod: string([]byte(arg.ServiceMethod)), Body: append([]byte(nil), arg.Body...), Seq: arg.Seq}
	enter(ctx, "pb", true, cp)
	return nil
}

// TypedArg builds the request body value of a typed kind from a token and a payload.
func TypedArg(kind, tok, pay string, n int) interface{} {
	switch kind {
	case "json", "xml", "form":
		return &Arg{Tok: tok, Pay: pay, N: n}
	case "plain":
		s := tok + "|" + pay
		return &s
	case "pb":
		return &pb.Payload{ServiceMethod: tok, Body: []byte(pay), Seq: int32(n)}
	}
	panic(kind)
}

// TypedResult makes the receiver for a typed reply.
func TypedResult(kind string) interface{} {
	switch kind {
	case "json", "xml", "form":
		return new(Arg)
	case "plain":
		return new(string)
	case "pb":
		return new(pb.Payload)
	}
	panic(kind)
}

// Canon renders a body / result value as comparable bytes.
func Canon(v interface{}) []byte { return canon(v) }

// NewBackend creates a backend peer: typed handlers under /a and /b, unknown handlers for the rest.
func NewBackend(idx int, cfg erpc.PeerConfig, plugins ...erpc.Plugin) *Backend {
	b := &Backend{Idx: idx, Routes: map[string]string{}}
	b.Peer = erpc.NewPeer(cfg, plugins...)
	backends.Store(b.Peer, b)
	for _, pre := range []string{"/a", "/b"} {
		g := b.Peer.SubRoute(pre)
		b.Routes["call:rbytes"+pre] = g.RouteCallFunc(Tbytes)
		b.Routes["call:json"+pre] = g.RouteCallFunc(Tjson)
		b.Routes["call:xml"+pre] = g.RouteCallFunc(Txml)
		b.Routes["call:form"+pre] = g.RouteCallFunc(Tform)
		b.Routes["call:plain"+pre] = g.RouteCallFunc(Tplain)
		b.Routes["call:pb"+pre] = g.RouteCallFunc(Tpb)
		b.Routes["push:json"+pre] = g.RoutePushFunc(Pjson)
		b.Routes["push:xml"+pre] = g.RoutePushFunc(Pxml)
		b.Routes["push:plain"+pre] = g.RoutePushFunc(Pplain)
		b.Routes["push:pb"+pre] = g.RoutePushFunc(Ppb)
	}
	b.Peer.SetUnknownCall(unknownCall)
	b.Peer.SetUnknownPush(unknownPush)
	return b
}

// Route returns the registered route of a typed kind ("call"/"push") under prefix "/a" or "/b".
func (b *Backend) Route(op, kind, prefix string) string { return b.Routes[op+":"+kind+prefix] }

// Fwd wraps a forwarder and records what it returned (it hands the very same objects on).
type Fwd struct {
	Inner        proxy.Forwarder
	Calls        int64
	Pushes       int64
	LastCallCode int32
	LastPushCode int32
	PushDone     int64
}

func (f *Fwd) Call(uri string, arg interface{}, result interface{}, setting ...erpc.MessageSetting) erpc.CallCmd {
	atomic.AddInt64(&f.Calls, 1)
	cmd := f.Inner.Call(uri, arg, result, setting...)
	atomic.StoreInt32(&f.LastCallCode, cmd.Status().Code())
	return cmd
}

func (f *Fwd) Push(uri string, arg interface{}, setting ...erpc.MessageSetting) *erpc.Status {
	atomic.AddInt64(&f.Pushes, 1)
	st := f.Inner.Push(uri, arg, setting...)
	atomic.StoreInt32(&f.LastPushCode, st.Code())
	atomic.AddInt64(&f.PushDone, 1)
	return st
}

// TCPServer serves a peer on a loopback listener with harness-owned connections.
type TCPServer struct {
	lis   net.Listener
	peer  erpc.Peer
	pf    erpc.ProtoFunc
	mu    sync.Mutex
	conns []net.Conn
	down  bool
}

// NewTCPServer starts accepting on 127.0.0.1:0.
func NewTCPServer(peer erpc.Peer, pf erpc.ProtoFunc) (*TCPServer, error) {
	lis, err := net.Listen("tcp", "127.0.0.1:0")
	if err != nil {
		return nil, err
	}
	s := &TCPServer{lis: lis, peer: peer, pf: pf}
	go s.loop()
	return s, nil
}

func (s *TCPServer) loop() {
	for {
		c, err := s.lis.Accept()
		if err != nil {
			return
		}
		s.mu.Lock()
		if s.down {
			s.mu.Unlock()
			c.Close()
			continue
		}
		s.conns = append(s.conns, c)
		s.mu.Unlock()
		go s.peer.ServeConn(c, s.pf)
	}
}

// Addr is the listen address.
func (s *TCPServer) Addr() string { return s.lis.Addr().String() }

// CutConns closes every accepted connection at TCP level (the listener keeps accepting).
func (s *TCPServer) CutConns() int {
	s.mu.Lock()
	cs := s.conns
	s.conns = nil
	s.mu.Unlock()
	for _, c := range cs {
		c.Close()
	}
	return len(cs)
}

// Down closes the listener and every accepted connection.
func (s *TCPServer) Down() {
	s.mu.Lock()
	s.down = true
	s.mu.Unlock()
	s.lis.Close()
	s.CutConns()
}

// Topo is one proxy topology.
type Topo struct {
	Proto   protos.P
	FwdKind string // "session" or "multiclient"
	C, P, F erpc.Peer
	B       [2]*Backend
	CP      *bed.Link    // caller -> proxy
	CB      [2]*bed.Link // caller -> backend (direct path)
	FB      [2]*bed.Link // forwarder sessions (FwdKind session)
	MC      [2]*multiclient.MultiClient
	Srv     [2]*TCPServer
	Fw      [2]*Fwd
	// several upstream sessions per backend (FwdKind session, Options.Upstreams > 1): the forwarder function
	// picks one by the label's real IP. FB[i] / Fw[i] are FBx[i][0] / Fwx[i][0].
	FBx [2][]*bed.Link
	Fwx [2][]*Fwd
	// LoginRoute is a CALL route served by the proxy peer itself: its handler renames the caller's session
	// (argument = new id), as a login handler does.
	LoginRoute string

	namer  *namer
	mu     sync.Mutex
	labels []proxy.Label
}

// namer is a PostAccept plug-in of the proxy peer that gives the next accepted session an id.
type namer struct{ next atomic.Value }

func (n *namer) Name() string { return "harness-session-namer" }
func (n *namer) PostAccept(sess erpc.PreSession) *erpc.Status {
	if id, _ := n.next.Load().(string); id != "" {
		n.next.Store("")
		sess.SetID(id)
	}
	return nil
}

// Login is the proxy peer's own handler: it gives the calling session the id passed as argument.
func Login(ctx erpc.CallCtx, arg *string) (string, *erpc.Status) {
	s, ok := ctx.Peer().GetSession(ctx.Session().ID())
	if !ok {
		return "", erpc.NewStatus(1404, "session not in the index", ctx.Session().ID())
	}
	s.SetID(string([]byte(*arg)))
	return s.ID(), nil
}

// UpstreamIndex is the rule by which the forwarder function picks one of n upstream sessions.
func UpstreamIndex(realIP string, n int) int {
	if n <= 1 {
		return 0
	}
	h := uint32(2166136261)
	for i := 0; i < len(realIP); i++ {
		h = (h ^ uint32(realIP[i])) * 16777619
	}
	return int(h % uint32(n))
}

// Options for Build.
type Options struct {
	Proto          string
	FwdKind        string
	ProxyPlugins   []erpc.Plugin // extra plug-ins of the proxy peer (after the proxy plug-in)
	BackendPlugins []erpc.Plugin
	NoDirect       bool // do not create the direct caller -> backend links
	Upstreams      int  // upstream sessions per backend (FwdKind session only; default 1)
}

// BackendOf tells which backend the forwarder function chooses for a service method.
func BackendOf(method string) int {
	if strings.HasPrefix(method, "/b") {
		return 1
	}
	return 0
}

// Build creates the peers and links.
func Build(o Options) (*Topo, error) {
	if o.Proto == "" {
		o.Proto = "raw"
	}
	if o.FwdKind == "" {
		o.FwdKind = "session"
	}
	t := &Topo{Proto: protos.ByName(o.Proto), FwdKind: o.FwdKind}
	pf := t.Proto.Func
	for i := range t.B {
		t.B[i] = NewBackend(i, erpc.PeerConfig{}, o.BackendPlugins...)
		t.Fw[i] = &Fwd{}
	}
	t.C = erpc.NewPeer(erpc.PeerConfig{})
	t.F = erpc.NewPeer(erpc.PeerConfig{})
	plug := proxy.NewPlugin(func(l *proxy.Label) proxy.Forwarder {
		t.mu.Lock()
		if len(t.labels) < 4096 {
			t.labels = append(t.labels, *l)
		}
		t.mu.Unlock()
		b := BackendOf(l.ServiceMethod)
		if n := len(t.Fwx[b]); n > 1 {
			return t.Fwx[b][UpstreamIndex(l.RealIP, n)]
		}
		return t.Fw[b]
	})
	t.namer = &namer{}
	t.P = erpc.NewPeer(erpc.PeerConfig{}, append([]erpc.Plugin{plug, t.namer}, o.ProxyPlugins...)...)
	t.LoginRoute = t.P.RouteCallFunc(Login)
	var err error
	for i := range t.B {
		switch o.FwdKind {
		case "session":
			if t.FB[i], err = bed.Connect(t.F, t.B[i].Peer, pf, pf, nil); err != nil {
				t.Close()
				return nil, err
			}
			t.Fw[i].Inner = t.FB[i].A
			t.FBx[i], t.Fwx[i] = []*bed.Link{t.FB[i]}, []*Fwd{t.Fw[i]}
			for k := 1; k < o.Upstreams; k++ {
				l, err := bed.Connect(t.F, t.B[i].Peer, pf, pf, nil)
				if err != nil {
					t.Close()
					return nil, err
				}
				t.FBx[i] = append(t.FBx[i], l)
				t.Fwx[i] = append(t.Fwx[i], &Fwd{Inner: l.A})
			}
		case "multiclient":
			if t.Srv[i], err = NewTCPServer(t.B[i].Peer, pf); err != nil {
				t.Close()
				return nil, err
			}
			// a short idle time only so that the pool's collector goroutine ends soon after Close (it sleeps that long)
			t.MC[i] = multiclient.New(t.F, t.Srv[i].Addr(), 4, 3*time.Second, pf)
			t.Fw[i].Inner = t.MC[i]
		default:
			return nil, fmt.Errorf("unknown forwarder kind %q", o.FwdKind)
		}
		if !o.NoDirect {
			if t.CB[i], err = bed.Connect(t.C, t.B[i].Peer, pf, pf, nil); err != nil {
				t.Close()
				return nil, err
			}
		}
	}
	if t.CP, err = bed.Connect(t.C, t.P, pf, pf, nil); err != nil {
		t.Close()
		return nil, err
	}
	return t, nil
}

// CallerAddr is the caller's address as the proxy peer sees it.
func (t *Topo) CallerAddr() string { return t.CP.CA.LocalAddr().String() }

// NewCallerLink opens another caller -> proxy connection; with a non-empty id the proxy peer's PostAccept
// plug-in names the accepted session.
func (t *Topo) NewCallerLink(id string) (*bed.Link, error) {
	t.namer.next.Store(id)
	l, err := bed.Connect(t.C, t.P, t.Proto.Func, t.Proto.Func, nil)
	t.namer.next.Store("")
	return l, err
}

// TakeLabels returns the labels the forwarder function was called with since the last TakeLabels.
func (t *Topo) TakeLabels() []proxy.Label {
	t.mu.Lock()
	defer t.mu.Unlock()
	l := t.labels
	t.labels = nil
	return l
}

// Labels returns the labels the forwarder function was called with.
func (t *Topo) Labels() []proxy.Label {
	t.mu.Lock()
	defer t.mu.Unlock()
	return append([]proxy.Label(nil), t.labels...)
}

func sever(l *bed.Link) {
	if l != nil {
		l.CA.Sever(false)
	}
}

// Close tears the topology down without ever blocking: connections are severed first, the
// peers are closed in the background.
func (t *Topo) Close() {
	sever(t.CP)
	for i := range t.B {
		sever(t.CB[i])
		sever(t.FB[i])
		for _, l := range t.FBx[i] {
			sever(l)
		}
		if t.Srv[i] != nil {
			t.Srv[i].Down()
		}
	}
	peers := []erpc.Peer{t.C, t.P, t.F}
	for _, b := range t.B {
		if b != nil {
			peers = append(peers, b.Peer)
			backends.Delete(b.Peer)
		}
	}
	mcs := t.MC
	go func() {
		for _, p := range peers {
			if p != nil {
				p.Close()
			}
		}
		for _, m := range mcs {
			if m != nil {
				m.Close()
			}
		}
	}()
}

// ---- quiescence with an extended ignore list ----

// goroutines that sleep forever in shipped plug-ins / mixers and say nothing about progress
var ignore = []string{
	"github.com/henrylee2cn/erpc/v6/plugin/heartbeat.",
	"github.com/henrylee2cn/goutil/pool.(*Workshop).gc",
	"github.com/henrylee2cn/goutil/coarsetime.",
	"github.com/xtaci/kcp-go/v5.(*TimedSched)",
	"github.com/henrylee2cn/goutil/pool.(*GoPool).cleaner",
	"github.com/henrylee2cn/goutil/pool.(*GoPool).start",
	"os/signal.",
	"github.com/henrylee2cn/erpc/v6/plugin/overloader.(*qpsLimiter).startTicker",
	"verifharness/quiesce.",
	"verifharness/pxy.Settle",
	"verifharness/pxy.(*TCPServer).loop",
	"runtime.gc", "runtime.bgsweep", "runtime.bgscavenge", "runtime.forcegchelper", "runtime.runfinq",
	"github.com/henrylee2cn/erpc/v6.(*logger)", "github.com/henrylee2cn/erpc/v6.glob",
	"github.com/henrylee2cn/erpc/v6.(*erpcLogger)",
}

func ignored(g quiesce.G) bool {
	for _, f := range g.Frames {
		for _, w := range ignore {
			if strings.HasPrefix(f, w) {
				return true
			}
		}
	}
	return false
}

// MinQuiet is the minimum time the quiescent picture must persist. With kernel sockets in play (loopback
// TCP) a reader can look blocked while its wake-up is still on the way; workers that draw a verdict from
// "it never arrived" set this when such connections exist.
var MinQuiet time.Duration

// Settle waits until no goroutine (other than permanent background ones) is running, runnable,
// sleeping or in a system call and the set of blocked goroutines is identical in `samples`
// consecutive dumps. It is quiesce.Wait with a longer ignore list (heartbeat loops and the
// multiclient pool collector sleep forever). Goroutines blocked in network I/O count as blocked.
func Settle(timeout time.Duration, samples int, extra func() uint64) (bool, []quiesce.G) {
	if samples <= 0 {
		samples = 3
	}
	deadline := time.Now().Add(timeout)
	last, same := "", 0
	var since time.Time
	var lastExtra uint64
	for {
		gs := quiesce.Dump()
		var parts []string
		ok := true
		for _, g := range gs {
			if ignored(g) {
				continue
			}
			switch g.State {
			case "running", "runnable", "syscall", "sleep":
				ok = false
			}
			if !ok {
				if os.Getenv("PXY_DEBUG") != "" {
					fmt.Fprintf(os.Stderr, "settle: active g%s [%s] %v\n", g.ID, g.State, g.Frames)
				}
				break
			}
			top := g.Frames
			if len(top) > 4 {
				top = top[:4]
			}
			parts = append(parts, g.ID+"|"+g.State+"|"+strings.Join(top, ";"))
		}
		var ex uint64
		if extra != nil {
			ex = extra()
		}
		if ok {
			sig := strings.Join(parts, "\n")
			if sig == last && ex == lastExtra {
				same++
			} else {
				same, last, lastExtra = 1, sig, ex
				since = time.Now()
			}
			if same >= samples && time.Since(since) >= MinQuiet {
				return true, gs
			}
		} else {
			same, last = 0, ""
		}
		if time.Now().After(deadline) {
			return false, gs
		}
		time.Sleep(2 * time.Millisecond)
	}
}

// Await waits for done; when the process settles without it, the operation is stuck.
// Returns "" when done, otherwise a description (stuck or watchdog).
func Await(done <-chan struct{}, watchdog time.Duration) string {
	deadline := time.Now().Add(watchdog)
	wait := 300 * time.Millisecond
	for {
		select {
		case <-done:
			return ""
		case <-time.After(wait):
		}
		ok, gs := Settle(3*time.Second, 4, nil)
		select {
		case <-done:
			return ""
		default:
		}
		if ok {
			bl := quiesce.Brief(quiesce.Blocked(gs, "github.com/henrylee2cn/erpc/v6."))
			if len(bl) > 6 {
				bl = bl[:6]
			}
			return "stuck at quiescence: " + strings.Join(bl, " ;; ")
		}
		if time.Now().After(deadline) {
			return "watchdog expired without quiescence"
		}
	}
}

// WaitCount waits until cond holds; when the process settles first, it reports false.
func WaitCount(cond func() bool, watchdog time.Duration) bool {
	deadline := time.Now().Add(watchdog)
	for i := 0; ; i++ {
		if cond() {
			return true
		}
		if i < 200 {
			time.Sleep(50 * time.Microsecond)
			continue
		}
		ok, _ := Settle(2*time.Second, 3, nil)
		if cond() {
			return true
		}
		if ok || time.Now().After(deadline) {
			return false
		}
	}
}

// MetaOf lists the metadata of a finished call (nil-safe).
func MetaOf(cmd erpc.CallCmd) []KV {
	m := cmd.InputMeta()
	if m == nil {
		return nil
	}
	var out []KV
	m.VisitAll(func(k, v []byte) { out = append(out, KV{string(k), string(v)}) })
	return out
}

var _ = memconn.ChunkWhole
