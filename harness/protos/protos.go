// Package protos lists the wire protocols shipped with eRPC together with the
// documented limits / supported field sets the checks rely on.
package protos

import (
	"net/url"
	"strconv"

	erpc "github.com/henrylee2cn/erpc/v6"
	"github.com/henrylee2cn/erpc/v6/mixer/websocket/jsonSubProto"
	"github.com/henrylee2cn/erpc/v6/mixer/websocket/pbSubProto"
	"github.com/henrylee2cn/erpc/v6/proto/httproto"
	"github.com/henrylee2cn/erpc/v6/proto/jsonproto"
	"github.com/henrylee2cn/erpc/v6/proto/pbproto"
	"github.com/henrylee2cn/erpc/v6/proto/thriftproto"
	"github.com/henrylee2cn/erpc/v6/socket"
)

// P describes one protocol.
type P struct {
	Name      string
	Func      erpc.ProtoFunc
	Codec     bool // carries a body codec id
	Pipe      bool // carries a transfer pipe
	Status    bool // carries a status
	Push      bool // carries PUSH messages
	Stream    bool // self-delimiting on a byte stream (false: one frame per underlying message, e.g. websocket)
	MethodMax int  // max service method length (0 = unlimited)
	HTTP      bool // header mapping semantics
	Struct    bool // body must be a thrift.TStruct
	AnyMtype  bool // carries arbitrary mtype bytes
}

// All returns the protocol table. Note: importing thriftproto changes process globals
// (service method mapper, default codec); workers reset them explicitly.
func All() []P {
	return []P{
		{Name: "raw", Func: socket.RawProtoFunc, Codec: true, Pipe: true, Status: true, Push: true, Stream: true, MethodMax: 255, AnyMtype: true},
		{Name: "json", Func: jsonproto.NewJSONProtoFunc(), Codec: true, Pipe: true, Status: true, Push: true, Stream: true, AnyMtype: true},
		{Name: "pb", Func: pbproto.NewPbProtoFunc(), Codec: true, Pipe: true, Status: true, Push: true, Stream: true, AnyMtype: true},
		{Name: "thrift-binary", Func: thriftproto.NewBinaryProtoFunc(), Codec: true, Pipe: true, Status: true, Push: true, Stream: true},
		{Name: "thrift-struct", Func: thriftproto.NewStructProtoFunc(), Codec: false, Pipe: false, Status: true, Push: true, Stream: true, Struct: true},
		{Name: "http", Func: httproto.NewHTTProtoFunc(), Codec: true, Pipe: true, Status: true, Push: false, Stream: true, HTTP: true},
		{Name: "ws-json", Func: jsonSubProto.NewJSONSubProtoFunc(), Codec: true, Pipe: true, Status: false, Push: true, Stream: false, AnyMtype: true},
		{Name: "ws-pb", Func: pbSubProto.NewPbSubProtoFunc(), Codec: true, Pipe: true, Status: false, Push: true, Stream: false, AnyMtype: true},
	}
}

// ByName returns the protocol of that name.
func ByName(name string) P {
	for _, p := range All() {
		if p.Name == name {
			return p
		}
	}
	panic("unknown protocol " + name)
}

// Triple is the comparable content of a status.
type Triple struct {
	Code  int32
	Msg   string
	Cause string
}

// StatusTriple extracts (code,msg,cause) from a status through its own query encoding
// (absent fields are empty).
func StatusTriple(s *erpc.Status) Triple {
	if s == nil {
		return Triple{}
	}
	v, err := url.ParseQuery(string(s.EncodeQuery()))
	if err != nil {
		c := ""
		if s.Cause() != nil {
			c = s.Cause().Error()
		}
		return Triple{s.Code(), s.Msg(), c}
	}
	code, _ := strconv.ParseInt(v.Get("code"), 10, 32)
	return Triple{int32(code), v.Get("msg"), v.Get("cause")}
}
