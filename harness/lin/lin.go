// Package lin wraps porcupine (linearizability checking of recorded histories).
package lin

import (
	"time"

	"github.com/anishathalye/porcupine"
)

// Check runs porcupine with a timeout; returns "ok", "illegal" or "unknown" (timeout => inconclusive).
func Check(model porcupine.Model, ops []porcupine.Operation, timeout time.Duration) string {
	switch porcupine.CheckOperationsTimeout(model, ops, timeout) {
	case porcupine.Ok:
		return "ok"
	case porcupine.Illegal:
		return "illegal"
	}
	return "unknown"
}
