// Package quiesce decides "the process is quiescent" from goroutine dumps:
// a state predicate used as the bounded-progress oracle (a call still incomplete
// at quiescence after its trigger will stay incomplete).
package quiesce

import (
	"regexp"
	"runtime"
	"sort"
	"strings"
	"time"
)

// G is one parsed goroutine.
type G struct {
	ID     string
	State  string
	Frames []string // function names, innermost first
	Raw    string
}

var hdr = regexp.MustCompile(`^goroutine (\d+) \[([^\],]+)(?:, [^\]]*)?\]:`)

// Dump returns the parsed goroutines of the process.
func Dump() []G {
	buf := make([]byte, 1<<20)
	for {
		n := runtime.Stack(buf, true)
		if n < len(buf) {
			buf = buf[:n]
			break
		}
		buf = make([]byte, 2*len(buf))
	}
	return Parse(string(buf))
}

// Parse parses a runtime.Stack(all) dump.
func Parse(s string) []G {
	var gs []G
	for _, blk := range strings.Split(s, "\n\n") {
		lines := strings.Split(strings.TrimSpace(blk), "\n")
		if len(lines) == 0 {
			continue
		}
		m := hdr.FindStringSubmatch(lines[0])
		if m == nil {
			continue
		}
		g := G{ID: m[1], State: m[2], Raw: blk}
		for _, l := range lines[1:] {
			if strings.HasPrefix(l, "\t") || strings.HasPrefix(l, "created by ") {
				continue
			}
			if i := strings.LastIndex(l, "("); i > 0 {
				l = l[:i]
			}
			g.Frames = append(g.Frames, l)
		}
		gs = append(gs, g)
	}
	return gs
}

// background goroutines that are permanently alive and may be sleeping/running
var whitelist = []string{
	"github.com/henrylee2cn/goutil/coarsetime.",
	"github.com/xtaci/kcp-go/v5.(*TimedSched)",
	"github.com/henrylee2cn/goutil/pool.(*GoPool).cleaner",
	"github.com/henrylee2cn/goutil/pool.(*GoPool).start",
	"os/signal.",
	"github.com/henrylee2cn/erpc/v6/plugin/overloader.(*qpsLimiter).startTicker",
	"verifharness/quiesce.",
	"runtime.gc", "runtime.bgsweep", "runtime.bgscavenge", "runtime.forcegchelper", "runtime.runfinq",
	"github.com/henrylee2cn/erpc/v6.(*logger)", "github.com/henrylee2cn/erpc/v6.glob",
	"github.com/henrylee2cn/erpc/v6.(*erpcLogger)",
}

func whitelisted(g G) bool {
	for _, f := range g.Frames {
		for _, w := range whitelist {
			if strings.HasPrefix(f, w) {
				return true
			}
		}
	}
	return false
}

func active(state string) bool {
	switch state {
	case "running", "runnable", "syscall", "sleep":
		return true
	}
	return false
}

// Options for Wait.
type Options struct {
	Samples  int           // consecutive identical samples required (default 3)
	Interval time.Duration // between samples (default 5ms)
	Timeout  time.Duration // watchdog (default 30s); expiry => inconclusive
	Extra    func() uint64 // extra progress counter that must not change (may be nil)
	Self     string        // frame prefix identifying the calling goroutine (ignored)
}

// Result of Wait.
type Result struct {
	Quiescent bool
	Samples   int
	Dump      []G
}

func signature(gs []G, self string) (string, bool) {
	var parts []string
	for _, g := range gs {
		if whitelisted(g) {
			continue
		}
		isSelf := false
		if self != "" {
			for _, f := range g.Frames {
				if strings.HasPrefix(f, self) {
					isSelf = true
					break
				}
			}
		}
		if isSelf {
			continue
		}
		if active(g.State) {
			return "", false
		}
		top := g.Frames
		if len(top) > 4 {
			top = top[:4]
		}
		parts = append(parts, g.ID+"|"+g.State+"|"+strings.Join(top, ";"))
	}
	sort.Strings(parts)
	return strings.Join(parts, "\n"), true
}

// Wait blocks until the process is quiescent or the watchdog fires.
// The caller's goroutine is recognised by being the one "running" inside quiesce.
func Wait(o Options) Result {
	if o.Samples == 0 {
		o.Samples = 3
	}
	if o.Interval == 0 {
		o.Interval = 5 * time.Millisecond
	}
	if o.Timeout == 0 {
		o.Timeout = 30 * time.Second
	}
	deadline := time.Now().Add(o.Timeout)
	var last string
	var lastExtra uint64
	same := 0
	n := 0
	for {
		gs := Dump()
		n++
		sig, ok := signature(gs, o.Self)
		var ex uint64
		if o.Extra != nil {
			ex = o.Extra()
		}
		if ok && sig == last && ex == lastExtra {
			same++
		} else if ok {
			same = 1
			last = sig
			lastExtra = ex
		} else {
			same = 0
			last = ""
		}
		if same >= o.Samples {
			return Result{true, n, gs}
		}
		if time.Now().After(deadline) {
			return Result{false, n, gs}
		}
		time.Sleep(o.Interval)
	}
}

// Blocked returns the goroutines (non-whitelisted) having a frame with the given prefix.
func Blocked(gs []G, framePrefix string) []G {
	var out []G
	for _, g := range gs {
		for _, f := range g.Frames {
			if strings.HasPrefix(f, framePrefix) {
				out = append(out, g)
				break
			}
		}
	}
	return out
}

// Brief renders goroutines compactly for witnesses.
func Brief(gs []G) []string {
	var out []string
	for _, g := range gs {
		f := g.Frames
		if len(f) > 8 {
			f = f[:8]
		}
		out = append(out, "g"+g.ID+" ["+g.State+"] "+strings.Join(f, " < "))
	}
	return out
}
