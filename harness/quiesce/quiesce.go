// Package quiesce decides "the process is quiescent" from goroutine dumps:
// a state predicate used as the bounded-progress oracle (a call still incomplete
// at quiescence after its trigger will stay incomplete).
package quiesce

import (
	"bytes"
	"regexp"
	"runtime"
	"sort"
	"strings"
	"sync"
	"time"
)

// G is one parsed goroutine.
type G struct {
	ID     string
	State  string
	Frames []string // function names, innermost first
	Raw    string
}

var hdr = regexp.MustCompile(`^goroutine (\d+) \[([^\],]+)(?:, [^\]]*)?\]:`)

// Dump returns the parsed goroutines of the process.
func Dump() []G {
	buf := make([]byte, 1<<20)
	for {
		n := runtime.Stack(buf, true)
		if n < len(buf) {
			buf = buf[:n]
			break
		}
		buf = make([]byte, 2*len(buf))
	}
	return Parse(string(buf))
}

// Parse parses a runtime.Stack(all) dump.
func Parse(s string) []G {
	var gs []G
	for _, blk := range strings.Split(s, "\n\n") {
		lines := strings.Split(strings.TrimSpace(blk), "\n")
		if len(lines) == 0 {
			continue
		}
		m := hdr.FindStringSubmatch(lines[0])
		if m == nil {
			continue
		}
		g := G{ID: m[1], State: m[2], Raw: blk}
		for _, l := range lines[1:] {
			if strings.HasPrefix(l, "\t") || strings.HasPrefix(l, "created by ") {
				continue
			}
			if i := strings.LastIndex(l, "("); i > 0 {
				l = l[:i]
			}
			g.Frames = append(g.Frames, l)
		}
		gs = append(gs, g)
	}
	return gs
}

// background goroutines that are permanently alive and may be sleeping/running
var whitelist = []string{
	"github.com/henrylee2cn/goutil/coarsetime.",
	"github.com/xtaci/kcp-go/v5.(*TimedSched)",
	"github.com/henrylee2cn/goutil/pool.(*GoPool).cleaner",
	"github.com/henrylee2cn/goutil/pool.(*GoPool).start",
	"os/signal.",
	"github.com/henrylee2cn/erpc/v6/plugin/overloader.(*qpsLimiter).startTicker",
	// the per-peer loops of the heartbeat plug-ins (sleep, then look at the sessions; a ping itself runs in a pool goroutine)
	"github.com/henrylee2cn/erpc/v6/plugin/heartbeat.(*heartPing).PostNewPeer.func",
	"github.com/henrylee2cn/erpc/v6/plugin/heartbeat.(*heartPong).PostNewPeer.func",
	"verifharness/quiesce.",
	"runtime.gc", "runtime.bgsweep", "runtime.bgscavenge", "runtime.forcegchelper", "runtime.runfinq",
	"github.com/henrylee2cn/erpc/v6.(*logger)", "github.com/henrylee2cn/erpc/v6.glob",
	"github.com/henrylee2cn/erpc/v6.(*erpcLogger)",
}

func whitelisted(g G) bool {
	for _, f := range g.Frames {
		for _, w := range whitelist {
			if strings.HasPrefix(f, w) {
				return true
			}
		}
	}
	return false
}

func active(state string) bool {
	switch state {
	case "running", "runnable", "syscall", "sleep":
		return true
	}
	return false
}

// Options for Wait.
type Options struct {
	Samples  int           // consecutive identical samples required (default 3)
	Interval time.Duration // between samples (default 5ms)
	Timeout  time.Duration // watchdog (default 30s); expiry => inconclusive
	Extra    func() uint64 // extra progress counter that must not change (may be nil)
	Self     string        // frame prefix identifying the calling goroutine (ignored)
}

// Result of Wait.
type Result struct {
	Quiescent bool
	Samples   int
	Dump      []G
}

func signature(gs []G, self string) (string, bool) {
	var parts []string
	for _, g := range gs {
		if whitelisted(g) {
			continue
		}
		isSelf := false
		if self != "" {
			for _, f := range g.Frames {
				if strings.HasPrefix(f, self) {
					isSelf = true
					break
				}
			}
		}
		if isSelf {
			continue
		}
		if active(g.State) {
			return "", false
		}
		top := g.Frames
		if len(top) > 4 {
			top = top[:4]
		}
		parts = append(parts, g.ID+"|"+g.State+"|"+strings.Join(top, ";"))
	}
	sort.Strings(parts)
	return strings.Join(parts, "\n"), true
}

var (
	bufMu   sync.Mutex
	dumpBuf = make([]byte, 4<<20)
)

// fastSig computes an order-independent hash of the non-whitelisted goroutines (id, state, top
// frames) of a raw dump without allocating; ok is false when one of them is active.
func fastSig(buf []byte, self string) (sig uint64, ok bool) {
	selfB := []byte(self)
	for len(buf) > 0 {
		var blk []byte
		if i := bytes.Index(buf, []byte("\n\n")); i >= 0 {
			blk, buf = buf[:i], buf[i+2:]
		} else {
			blk, buf = buf, nil
		}
		if !bytes.HasPrefix(blk, []byte("goroutine ")) {
			continue
		}
		skip := false
		for _, w := range whitelistB {
			if bytes.Contains(blk, w) {
				skip = true
				break
			}
		}
		if skip || (len(selfB) > 0 && bytes.Contains(blk, selfB)) {
			continue
		}
		nl := bytes.IndexByte(blk, '\n')
		hdr := blk
		if nl >= 0 {
			hdr = blk[:nl]
		}
		lb := bytes.IndexByte(hdr, '[')
		if lb < 0 {
			continue
		}
		st := hdr[lb+1:]
		if e := bytes.IndexAny(st, ",]"); e >= 0 {
			st = st[:e]
		}
		switch string(st) {
		case "running", "runnable", "syscall", "sleep":
			return 0, false
		}
		h := uint64(14695981039346656037)
		mix := func(b []byte) {
			for _, c := range b {
				h ^= uint64(c)
				h *= 1099511628211
			}
		}
		mix(hdr[:lb]) // "goroutine N "
		mix(st)
		// top 4 function lines
		rest := blk
		if nl >= 0 {
			rest = blk[nl+1:]
		} else {
			rest = nil
		}
		n := 0
		for len(rest) > 0 && n < 4 {
			var line []byte
			if i := bytes.IndexByte(rest, '\n'); i >= 0 {
				line, rest = rest[:i], rest[i+1:]
			} else {
				line, rest = rest, nil
			}
			if len(line) == 0 || line[0] == '\t' || bytes.HasPrefix(line, []byte("created by ")) {
				continue
			}
			if i := bytes.LastIndexByte(line, '('); i > 0 {
				line = line[:i]
			}
			mix(line)
			n++
		}
		sig += h*0x9E3779B97F4A7C15 + 1
	}
	return sig, true
}

var whitelistB = func() [][]byte {
	var out [][]byte
	for _, w := range whitelist {
		out = append(out, []byte(w))
	}
	return out
}()

// Wait blocks until the process is quiescent or the watchdog fires. Sampling does not allocate
// (the goroutine dump goes into a reused buffer and is hashed in place); only the final dump is parsed.
func Wait(o Options) Result {
	if o.Samples == 0 {
		o.Samples = 3
	}
	if o.Interval == 0 {
		o.Interval = 5 * time.Millisecond
	}
	if o.Timeout == 0 {
		o.Timeout = 30 * time.Second
	}
	if o.Self == "" {
		o.Self = "verifharness/quiesce.Wait"
	}
	bufMu.Lock()
	defer bufMu.Unlock()
	deadline := time.Now().Add(o.Timeout)
	var last, lastExtra uint64
	same := 0
	n := 0
	for {
		k := runtime.Stack(dumpBuf, true)
		for k >= len(dumpBuf) {
			dumpBuf = make([]byte, 2*len(dumpBuf))
			k = runtime.Stack(dumpBuf, true)
		}
		n++
		sig, ok := fastSig(dumpBuf[:k], o.Self)
		var ex uint64
		if o.Extra != nil {
			ex = o.Extra()
		}
		if ok && same > 0 && sig == last && ex == lastExtra {
			same++
		} else if ok {
			same = 1
			last = sig
			lastExtra = ex
		} else {
			same = 0
		}
		if same >= o.Samples {
			return Result{true, n, Parse(string(dumpBuf[:k]))}
		}
		if time.Now().After(deadline) {
			return Result{false, n, Parse(string(dumpBuf[:k]))}
		}
		time.Sleep(o.Interval)
	}
}

// Blocked returns the goroutines (non-whitelisted) having a frame with the given prefix.
func Blocked(gs []G, framePrefix string) []G {
	var out []G
	for _, g := range gs {
		for _, f := range g.Frames {
			if strings.HasPrefix(f, framePrefix) {
				out = append(out, g)
				break
			}
		}
	}
	return out
}

// Brief renders goroutines compactly for witnesses.
func Brief(gs []G) []string {
	var out []string
	for _, g := range gs {
		f := g.Frames
		if len(f) > 8 {
			f = f[:8]
		}
		out = append(out, "g"+g.ID+" ["+g.State+"] "+strings.Join(f, " < "))
	}
	return out
}
