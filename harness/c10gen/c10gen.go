// Package c10gen generates the Go programs of property C10: handler functions and controller
// structs whose identifiers are drawn from patterns over the identifier alphabet, the
// registrations to perform with them (nested SubRoute groups, both mappers), colliding pairs for
// the grandchild runs, and the expectations that come verbatim from the documentation (the
// mapping tables in router.go / README.md and the README's controller examples).
//
// The mapper of the system under test is consulted here ONLY to plan (keep the main program free
// of name clashes, find candidate pairs that may clash); no verdict depends on that prediction.
package c10gen

import (
	"fmt"
	"go/format"
	"reflect"
	"sort"
	"strconv"
	"strings"
	"unicode"

	erpc "github.com/henrylee2cn/erpc/v6"

	"verifharness/c10rt"
	"verifharness/core"
)

// DocRow is one documented mapping row.
type DocRow struct{ Ident, HTTP, RPC string }

// Table holds the 8 rows documented above HTTPServiceMethodMapper / RPCServiceMethodMapper in
// router.go and in README.md ("Service method mapping"), verbatim.
var Table = []DocRow{
	{"AaBb", "/aa_bb", "AaBb"},
	{"ABcXYz", "/abc_xyz", "ABcXYz"},
	{"Aa__Bb", "/aa_bb", "Aa_Bb"},
	{"aa__bb", "/aa_bb", "aa_bb"},
	{"ABC__XYZ", "/abc_xyz", "ABC_XYZ"},
	{"Aa_Bb", "/aa/bb", "Aa.Bb"},
	{"aa_bb", "/aa/bb", "aa.bb"},
	{"ABC_XYZ", "/abc/xyz", "ABC.XYZ"},
}

// Examples: the README's API templates ("HTTP mapping: /aaa/xx_zz", "RPC mapping: Aaa.XxZz", ...).
var Examples = []DocRow{
	{"XxZz", "/xx_zz", "XxZz"},
	{"YyZz", "/yy_zz", "YyZz"},
	{"Aaa", "/aaa", "Aaa"},
	{"Bbb", "/bbb", "Bbb"},
}

// DocSegs are group prefixes as used by the README / examples (plain lower-case words).
var DocSegs = []string{"test", "group", "srv", "cli"}

// DocPrefix is the documented prefix of a chain of DocSegs (HTTP: "/test/srv", RPC: "test.srv").
func DocPrefix(mapper string, chain []string) string {
	var segs []string
	for _, s := range chain {
		segs = append(segs, strings.TrimPrefix(s, "/"))
	}
	if mapper == "rpc" {
		return strings.Join(segs, ".")
	}
	if len(segs) == 0 {
		return ""
	}
	return "/" + strings.Join(segs, "/")
}

// DocJoin appends a documented mapping to a documented prefix.
func DocJoin(mapper, prefix string, row DocRow) string {
	if mapper == "rpc" {
		if prefix == "" {
			return row.RPC
		}
		return prefix + "." + row.RPC
	}
	return prefix + row.HTTP
}

func docRow(ident string) (DocRow, bool) {
	for _, r := range Table {
		if r.Ident == ident {
			return r, true
		}
	}
	for _, r := range Examples {
		if r.Ident == ident {
			return r, true
		}
	}
	return DocRow{}, false
}

// Handler is one Go handler identity.
type Handler struct {
	Tag    string `json:"tag"`
	Pkg    string `json:"pkg"`
	Push   bool   `json:"push"`
	Ident  string `json:"ident"`         // function identifier or method name
	Ctl    string `json:"ctl,omitempty"` // controller type (methods and controller-pointer functions)
	Method bool   `json:"method"`
}

// Controller is a generated controller struct.
type Controller struct {
	Pkg     string
	Name    string
	Push    bool
	Methods []*Handler // sorted by method name
}

// RegSpec is a registration with the generator's labels.
type RegSpec struct {
	ID        string   `json:"id"`
	Group     []string `json:"group"`
	Kind      string   `json:"kind"`
	Fresh     bool     `json:"fresh,omitempty"`
	Form      string   `json:"form"` // func, methodexpr, ctlfunc, struct
	Expr      string   `json:"expr"`
	Tags      []string `json:"tags"`
	What      string   `json:"what"`             // human-readable: func AaBb / struct Aaa{XxZz}
	PClass    string   `json:"pclass"`           // pattern class of the identifier(s)
	GClass    string   `json:"gclass"`           // group class
	Expect    []string `json:"expect,omitempty"` // names required by the documentation (nil: none)
	Predicted []string `json:"-"`                // planning only; aligned with Tags
}

// PeerSpec mirrors c10rt.PeerSpec.
type PeerSpec struct {
	Class        string     `json:"class"`
	Regs         []*RegSpec `json:"regs"`
	UnknownGroup []string   `json:"unknown_group,omitempty"`
}

// CollisionSpec is a pair for a grandchild run.
type CollisionSpec struct {
	ID            string   `json:"id"`
	Class         string   `json:"class"`
	A, B          *RegSpec `json:"-"`
	Single        bool     `json:"single,omitempty"` // only A: one controller whose own method names may collide
	PClass        string   `json:"pclass"`
	What          string   `json:"what"`
	ExpectSurvive bool     `json:"expect_survive"`
}

// Program is a generated program.
type Program struct {
	Index      int
	Mapper     string
	Peers      []*PeerSpec
	Collisions []*CollisionSpec
	Direct     [][2]string
	Files      map[string]string // relative path -> source
	Rounds     int               // concurrent phase: rounds per peer
	Seed       int64
	NHandlers  int
}

// ---------- identifiers ----------

// Classify labels an identifier by its features (the "name pattern class").
func Classify(id string) string {
	if _, ok := docRow(id); ok {
		return "doc:" + id
	}
	rs := []rune(id)
	var f []string
	switch r := rs[0]; {
	case r == '_':
		f = append(f, "lead_")
	case unicode.IsUpper(r):
		f = append(f, "Upper")
	case unicode.IsLower(r):
		f = append(f, "lower")
	default:
		f = append(f, "caseless")
	}
	onlyUnder := strings.Trim(id, "_") == ""
	if onlyUnder {
		return "only_"
	}
	inner := strings.Trim(id, "_")
	switch {
	case strings.Contains(inner, "___"):
		f = append(f, "___")
	case strings.Contains(inner, "__"):
		f = append(f, "__")
	case strings.Contains(inner, "_"):
		f = append(f, "_")
	}
	if strings.HasSuffix(id, "_") {
		f = append(f, "trail_")
	}
	caps, digit, uni, hump := false, false, false, false
	for i, r := range rs {
		if r > 127 {
			uni = true
		}
		if unicode.IsDigit(r) {
			digit = true
		}
		if i > 0 && unicode.IsUpper(r) && unicode.IsUpper(rs[i-1]) {
			caps = true
		}
		if i > 0 && unicode.IsUpper(r) && unicode.IsLower(rs[i-1]) {
			hump = true
		}
	}
	if caps {
		f = append(f, "CAPS")
	}
	if hump {
		f = append(f, "hump")
	}
	if digit {
		f = append(f, "digit")
	}
	if uni {
		f = append(f, "unicode")
	}
	return strings.Join(f, "+")
}

var fixedPool = []string{
	// Aa, AaBb, ABc, all-caps
	"Ping", "Stat", "Echo", "Home", "GetUser", "ListAllItems", "AddOne", "HTTPGet", "GetURL", "ABc", "XMLHttpReq", "GetHTTPSUrl",
	"ABC", "ID", "URL", "XYZ", "A", "Z",
	// A_b, A__b, A___b ...
	"A_b", "Get_User", "A_B_C", "V_x", "Abc_DEF", "A__b", "Get__User", "AB__cd", "A__B__C", "A___b", "Aa___Bb", "A____b", "A_____b",
	// trailing
	"Ab_", "Ab__", "Ab___", "A_b_", "ABC_",
	// digits
	"A1", "A1b", "Get2", "V2_Get", "A_1", "X9Y", "A1__B2", "R2D2", "V1", "V2",
	// unicode
	"Größe", "Ünï", "Дом", "ДомКот", "Ñu_Ño", "Ünï__Code", "ÀB", "Ça_Va", "Ωmega", "Ab_Çd", "Éé",
	// mixed
	"A_b__C___d", "Get_userID__v2_", "HTTP_Get__URL_x1",
	// lower-case and leading underscores (functions and controller type names only)
	"aa", "ab", "ping", "home", "aaBb", "getUser", "xmlHTTP", "a_b", "get_user", "aa___bb", "x__y", "a1", "v2_get", "x9__y",
	"_ab", "_Ab", "__ab", "___Ab", "_a_b", "_A__b", "_ab_", "__", "___",
	"größe", "дом", "世界", "世界X", "ñu_ño", "aa_Bb", "aA",
}

var reserved = map[string]bool{
	"main": true, "init": true, "erpc": true, "c10rt": true, "alt": true, "ctl": true, "prog": true, "V": true, "_": true,
	"CallCtx": true, "PushCtx": true,
	"break": true, "default": true, "func": true, "interface": true, "select": true, "case": true, "defer": true, "go": true, "map": true,
	"struct": true, "chan": true, "else": true, "goto": true, "package": true, "switch": true, "const": true, "fallthrough": true, "if": true,
	"range": true, "type": true, "continue": true, "for": true, "import": true, "return": true, "var": true,
	"string": true, "int": true, "bool": true, "byte": true, "rune": true, "error": true, "nil": true, "true": true, "false": true,
	"new": true, "make": true, "len": true, "cap": true, "append": true, "copy": true, "panic": true, "print": true, "any": true, "iota": true,
}

func init() {
	// methods of the embedded context interfaces are skipped or rejected by the router: never generate them
	for _, t := range []reflect.Type{reflect.TypeOf((*erpc.CallCtx)(nil)).Elem(), reflect.TypeOf((*erpc.PushCtx)(nil)).Elem()} {
		for i := 0; i < t.NumMethod(); i++ {
			reserved[t.Method(i).Name] = true
		}
	}
}

func exported(id string) bool { return unicode.IsUpper([]rune(id)[0]) }

// synth builds an identifier from tokens and separators.
func synth(r *core.Rand, mustExport bool) string {
	upper := []string{"A", "Ab", "ABC", "Xy", "Id", "HTTP", "Ä", "Öl", "Д", "Z9"}
	lower := []string{"a", "ab", "xyz", "id", "ö", "я", "n1"}
	any := append(append([]string{}, upper...), lower...)
	tail := append(append([]string{"1", "42"}, upper...), lower...)
	sepsP := []string{"", "", "_", "_", "__", "___", "____"}
	var b strings.Builder
	if !mustExport && r.Chance(1, 4) {
		b.WriteString(r.Pick("_", "__", "___"))
	}
	if mustExport {
		b.WriteString(upper[r.Intn(len(upper))])
	} else {
		b.WriteString(any[r.Intn(len(any))])
	}
	n := r.Intn(4)
	for i := 0; i < n; i++ {
		b.WriteString(sepsP[r.Intn(len(sepsP))])
		b.WriteString(tail[r.Intn(len(tail))])
	}
	if r.Chance(1, 6) {
		b.WriteString(r.Pick("_", "__"))
	}
	return b.String()
}

// ---------- generator ----------

type gen struct {
	r        *core.Rand
	mapper   string
	m        erpc.ServiceMethodMapper
	used     map[string]map[string]bool // pkg -> identifier set
	handlers []*Handler
	ctls     []*Controller
	funcs    map[string]*Handler // pkg+"."+ident
	nreg     int
}

func (g *gen) take(pkg, id string) bool {
	if reserved[id] || g.used[pkg][id] {
		return false
	}
	g.used[pkg][id] = true
	return true
}

func (g *gen) newHandler(pkg string, push bool, ident, ctl string, method bool) *Handler {
	h := &Handler{Tag: fmt.Sprintf("H%d", len(g.handlers)), Pkg: pkg, Push: push, Ident: ident, Ctl: ctl, Method: method}
	g.handlers = append(g.handlers, h)
	return h
}

// fn defines (or returns the already defined) plain handler function.
func (g *gen) fn(pkg string, push bool, ident string) *Handler {
	if h, ok := g.funcs[pkg+"."+ident]; ok {
		if h.Push == push {
			return h
		}
		return nil
	}
	if !g.take(pkg, ident) {
		return nil
	}
	h := g.newHandler(pkg, push, ident, "", false)
	g.funcs[pkg+"."+ident] = h
	return h
}

// ctlFn defines a plain function whose first parameter is a pointer to the controller c.
func (g *gen) ctlFn(c *Controller, ident string) *Handler {
	if !g.take(c.Pkg, ident) {
		return nil
	}
	h := g.newHandler(c.Pkg, c.Push, ident, c.Name, false)
	g.funcs[c.Pkg+"."+ident] = h
	return h
}

func (g *gen) ctl(pkg string, push bool, name string, methods []string) *Controller {
	if !g.take(pkg, name) {
		return nil
	}
	c := &Controller{Pkg: pkg, Name: name, Push: push}
	seen := map[string]bool{}
	for _, m := range methods {
		if reserved[m] || seen[m] || !exported(m) {
			continue
		}
		seen[m] = true
		c.Methods = append(c.Methods, g.newHandler(pkg, push, m, name, true))
	}
	if len(c.Methods) == 0 {
		delete(g.used[pkg], name)
		return nil
	}
	sort.Slice(c.Methods, func(i, j int) bool { return c.Methods[i].Ident < c.Methods[j].Ident })
	g.ctls = append(g.ctls, c)
	return c
}

func (g *gen) pickIdent(mustExport bool) string {
	for {
		var id string
		if g.r.Chance(3, 5) {
			id = fixedPool[g.r.Intn(len(fixedPool))]
		} else {
			id = synth(g.r, mustExport)
		}
		if reserved[id] || (mustExport && !exported(id)) || len(id) > 24 {
			continue
		}
		return id
	}
}

// Packages of a generated program: main plus helper packages (so that one identifier can exist
// several times: as CALL function, as PUSH function, as controller type).
var Packages = []string{"main", "alt", "ctl"}

func ref(pkg, key string) string {
	if pkg == "main" {
		return key
	}
	return pkg + ".V[" + strconv.Quote(key) + "]"
}

func funcKind(push bool) string {
	if push {
		return c10rt.PushFunc
	}
	return c10rt.CallFunc
}

func (g *gen) prefix(chain []string) string {
	p := g.m("", "")
	for _, s := range chain {
		p = g.m(p, s)
	}
	return p
}

func groupClass(chain []string, doc bool) string {
	k := "any"
	if doc {
		k = "doc"
	}
	return fmt.Sprintf("depth%d-%s", len(chain), k)
}

// regFunc builds the registration of a plain function (or of a method expression).
func (g *gen) regFunc(h *Handler, chain []string, doc bool) *RegSpec {
	g.nreg++
	rs := &RegSpec{ID: fmt.Sprintf("R%d", g.nreg), Group: chain, Kind: funcKind(h.Push), Tags: []string{h.Tag},
		PClass: Classify(h.Ident), GClass: groupClass(chain, doc), Form: "func"}
	if h.Ctl != "" && !h.Method {
		rs.Form = "ctlfunc"
		rs.PClass = "ctlfunc:" + rs.PClass
	}
	if h.Method {
		rs.Form = "methodexpr"
		rs.Expr = ref(h.Pkg, "(*"+h.Ctl+")."+h.Ident)
		rs.What = "func (*" + h.Ctl + ")." + h.Ident
		rs.PClass = "methodexpr:" + rs.PClass
	} else {
		rs.Expr = ref(h.Pkg, h.Ident)
		rs.What = "func " + h.Ident
		if h.Ctl != "" {
			rs.What += "(*" + h.Ctl + ", *string)"
		}
	}
	if h.Pkg != "main" {
		rs.What += " (package " + h.Pkg + ")"
	}
	rs.Predicted = []string{g.m(g.prefix(chain), h.Ident)}
	if row, ok := docRow(h.Ident); ok && doc {
		rs.Expect = []string{DocJoin(g.mapper, DocPrefix(g.mapper, chain), row)}
	}
	return rs
}

func (g *gen) regCtl(c *Controller, chain []string, doc bool) *RegSpec {
	g.nreg++
	kind := c10rt.CallStruct
	if c.Push {
		kind = c10rt.PushStruct
	}
	rs := &RegSpec{ID: fmt.Sprintf("R%d", g.nreg), Group: chain, Kind: kind, Expr: ref(c.Pkg, "new("+c.Name+")"),
		PClass: "struct:" + Classify(c.Name), GClass: groupClass(chain, doc), Form: "struct"}
	var ms []string
	p := g.m(g.prefix(chain), c.Name)
	allDoc := doc
	crow, ok := docRow(c.Name)
	allDoc = allDoc && ok
	for _, h := range c.Methods {
		rs.Tags = append(rs.Tags, h.Tag)
		ms = append(ms, h.Ident)
		rs.Predicted = append(rs.Predicted, g.m(p, h.Ident))
		if _, ok := docRow(h.Ident); !ok {
			allDoc = false
		}
	}
	if allDoc {
		dp := DocJoin(g.mapper, DocPrefix(g.mapper, chain), crow)
		for _, h := range c.Methods {
			mrow, _ := docRow(h.Ident)
			rs.Expect = append(rs.Expect, DocJoin(g.mapper, dp, mrow))
		}
	}
	rs.What = "struct " + c.Name + "{" + strings.Join(ms, ",") + "}"
	if c.Pkg != "main" {
		rs.What += " (package " + c.Pkg + ")"
	}
	return rs
}

var anySegs = []string{"v1", "api", "V2", "Aa_Bb", "aa__bb", "ABC", "a/b", "/lead", "trail/", "x.y", "", "größe", "User_Svc", "_u", "a__", "A.B", "//", "..", "X__Y_z", "мир"}

func (g *gen) docChain(depth int) []string {
	var c []string
	for i := 0; i < depth; i++ {
		s := DocSegs[g.r.Intn(len(DocSegs))]
		if g.mapper == "http" && g.r.Chance(1, 3) {
			s = "/" + s // examples/group uses SubRoute("/srv")
		}
		c = append(c, s)
	}
	return c
}

func (g *gen) anyChain(depth int) []string {
	var c []string
	for i := 0; i < depth; i++ {
		switch g.r.Intn(4) {
		case 0:
			c = append(c, fmt.Sprintf("g%d", g.r.Intn(50)))
		case 1:
			c = append(c, DocSegs[g.r.Intn(len(DocSegs))])
		default:
			c = append(c, anySegs[g.r.Intn(len(anySegs))])
		}
	}
	return c
}

type nameSet map[string]bool // kind-namespace + "\x00" + name

func nsOf(kind string) string {
	if kind == c10rt.CallFunc || kind == c10rt.CallStruct {
		return "call"
	}
	return "push"
}

func (ns nameSet) clash(rs *RegSpec) bool {
	seen := map[string]bool{}
	for _, n := range rs.Predicted {
		k := nsOf(rs.Kind) + "\x00" + n
		if ns[k] || seen[k] || n == "" || len(n) > 120 {
			return true
		}
		seen[k] = true
	}
	return false
}

func (ns nameSet) add(rs *RegSpec) {
	for _, n := range rs.Predicted {
		ns[nsOf(rs.Kind)+"\x00"+n] = true
	}
}

// place registers something on a peer under a chain that does not clash (by prediction); build
// makes the RegSpec for a candidate chain. Returns nil when no clash-free chain was found.
func (g *gen) place(ps *PeerSpec, ns nameSet, doc bool, base []string, build func(chain []string, doc bool) *RegSpec) *RegSpec {
	for try := 0; try < 30; try++ {
		depth := g.r.Intn(4)
		if try > 20 {
			depth = 3
		}
		var chain []string
		if doc {
			chain = g.docChain(depth)
		} else {
			chain = g.anyChain(depth)
		}
		chain = append(append([]string{}, base...), chain...)
		if len(chain) > 3 {
			chain = chain[:3]
		}
		n0 := g.nreg
		rs := build(chain, doc)
		if ns.clash(rs) {
			g.nreg = n0
			continue
		}
		rs.Fresh = g.r.Chance(1, 4)
		ns.add(rs)
		ps.Regs = append(ps.Regs, rs)
		return rs
	}
	return nil
}

// Generate builds program number index (even: HTTP mapper, odd: RPC mapper).
func Generate(seed int64, index int, size int, rounds int) *Program {
	g := &gen{r: core.NewRand(seed, int64(index), 1010), used: map[string]map[string]bool{"main": {}, "alt": {}, "ctl": {}}, funcs: map[string]*Handler{}}
	g.mapper = "http"
	if index%2 == 1 {
		g.mapper = "rpc"
	}
	g.m = c10rt.MapperFunc(g.mapper)
	p := &Program{Index: index, Mapper: g.mapper, Rounds: rounds, Seed: int64(core.NewRand(seed, int64(index), 2020).Uint64() >> 1)}

	// --- handler identities ---
	var docCall, docPush []*Handler
	for _, row := range Table {
		docCall = append(docCall, g.fn("main", false, row.Ident))
		docPush = append(docPush, g.fn("alt", true, row.Ident))
	}
	aaa := g.ctl("main", false, "Aaa", []string{"XxZz"}) // README: Call-Struct API template
	bbb := g.ctl("main", true, "Bbb", []string{"YyZz"})  // README: Push-Struct API template
	xxzz := g.fn("main", false, "XxZz")                  // README: Call-Function API template
	yyzz := g.fn("main", true, "YyZz")                   // README: Push-Function API template
	mathV2 := g.ctl("main", false, "math_v2", []string{"Add__2"})
	// controllers named by documented rows with documented methods
	docCtlA := g.ctl("ctl", false, "Aa_Bb", []string{"AaBb", "ABcXYz", "ABC_XYZ"})
	docCtlB := g.ctl("ctl", true, "aa__bb", []string{"Aa__Bb", "Aa_Bb"})
	// the struct-vs-function pair of the documentation: struct Aa, method Bb  ==  func Aa_Bb
	aaCtl := g.ctl("main", false, "Aa", []string{"Bb"})

	var rndFuncs []*Handler
	var rndCtls []*Controller
	nf, nc := size*2/3, size/6
	for i := 0; i < nf; i++ {
		pkg := "main"
		if i%3 == 2 {
			pkg = "alt"
		}
		push := i%2 == 1
		for try := 0; try < 20; try++ {
			if h := g.fn(pkg, push, g.pickIdent(false)); h != nil {
				rndFuncs = append(rndFuncs, h)
				break
			}
		}
	}
	for i := 0; i < nc; i++ {
		pkg := "main"
		if i%2 == 1 {
			pkg = "alt"
		}
		var ms []string
		for k := 1 + g.r.Intn(4); k > 0; k-- {
			ms = append(ms, g.pickIdent(true))
		}
		for try := 0; try < 20; try++ {
			if c := g.ctl(pkg, i%3 == 2, g.pickIdent(false), ms); c != nil {
				rndCtls = append(rndCtls, c)
				break
			}
		}
	}
	// the same identifier as CALL function in one package and PUSH function in the other
	var twins [][2]*Handler
	for i := 0; i < 3; i++ {
		id := g.pickIdent(false)
		if g.used["main"][id] || g.used["alt"][id] {
			continue
		}
		a, b := g.fn("main", i%2 == 1, id), g.fn("alt", i%2 == 0, id)
		if a != nil && b != nil {
			twins = append(twins, [2]*Handler{a, b})
		}
	}
	// candidate colliding identifier pairs, found with the mapper (planning only)
	type cand struct{ a, b *Handler }
	var cands []cand
	{
		byOut := map[string][]string{}
		var ids []string
		ids = append(ids, fixedPool...)
		for i := 0; i < 60; i++ {
			ids = append(ids, synth(g.r, false))
		}
		seen := map[string]bool{}
		for _, id := range ids {
			if reserved[id] || seen[id] {
				continue
			}
			seen[id] = true
			o := g.m("", id)
			byOut[o] = append(byOut[o], id)
		}
		var outs []string
		for o, l := range byOut {
			if len(l) >= 2 {
				outs = append(outs, o)
			}
		}
		sort.Strings(outs)
		for k := 0; k < 6 && len(outs) > 0; k++ {
			l := byOut[outs[g.r.Intn(len(outs))]]
			i := g.r.Intn(len(l))
			j := (i + 1 + g.r.Intn(len(l)-1)) % len(l)
			push := g.r.Chance(1, 2)
			a, b := g.fn("main", push, l[i]), g.fn("main", push, l[j])
			if a != nil && b != nil && a != b {
				cands = append(cands, cand{a, b})
			}
		}
	}

	// functions (not methods) whose first parameter is a controller pointer, and the method
	// expressions every peer class gets (call and push flavour)
	var ctlFns []*Handler
	for _, c := range append([]*Controller{aaa, bbb}, rndCtls...) {
		for try := 0; try < 10; try++ {
			if h := g.ctlFn(c, g.pickIdent(false)); h != nil {
				ctlFns = append(ctlFns, h)
				break
			}
		}
	}
	exprsFor := func(k int) []*Handler { // README method expressions + one of a generated controller per flavour + controller-pointer functions
		hs := []*Handler{aaa.Methods[0], bbb.Methods[0]}
		var seenCall, seenPush bool
		for i := range rndCtls {
			c := rndCtls[(i+k)%len(rndCtls)]
			if c.Push && !seenPush {
				seenPush = true
				hs = append(hs, c.Methods[k%len(c.Methods)])
			} else if !c.Push && !seenCall {
				seenCall = true
				hs = append(hs, c.Methods[k%len(c.Methods)])
			}
		}
		for i, h := range ctlFns {
			if i < 2 || (i+k)%3 == 0 {
				hs = append(hs, h)
			}
		}
		return hs
	}

	// --- peer 0: everything, probed without and then with unknown-handlers ---
	p0 := &PeerSpec{Class: c10rt.LateUnknown}
	ns0 := nameSet{}
	for i := range Table {
		for k := 0; k < 2; k++ {
			h := docCall[i]
			g.place(p0, ns0, true, nil, func(c []string, d bool) *RegSpec { return g.regFunc(h, c, d) })
			h2 := docPush[i]
			g.place(p0, ns0, true, nil, func(c []string, d bool) *RegSpec { return g.regFunc(h2, c, d) })
		}
	}
	for _, c := range []*Controller{aaa, bbb, docCtlA, docCtlB} {
		c := c
		g.place(p0, ns0, true, nil, func(ch []string, d bool) *RegSpec { return g.regCtl(c, ch, d) })
		g.place(p0, ns0, true, nil, func(ch []string, d bool) *RegSpec { return g.regCtl(c, ch, d) })
	}
	// README: peer.RouteCallFunc((*Aaa).XxZz) / peer.RoutePushFunc((*Bbb).YyZz); the plain functions go to groups
	for _, h := range []*Handler{aaa.Methods[0], bbb.Methods[0], xxzz, yyzz} {
		h := h
		g.place(p0, ns0, true, nil, func(c []string, d bool) *RegSpec { return g.regFunc(h, c, d) })
	}
	// examples/group: SubRoute("/srv") + struct math_v2 + method Add__2 is called as /srv/math/v2/add_2
	if g.mapper == "http" {
		rs := g.regCtl(mathV2, []string{"/srv"}, true)
		rs.Expect = []string{"/srv/math/v2/add_2"}
		rs.PClass = "doc:example-group"
		if !ns0.clash(rs) {
			ns0.add(rs)
			p0.Regs = append(p0.Regs, rs)
		}
	} else {
		g.place(p0, ns0, false, nil, func(ch []string, d bool) *RegSpec { return g.regCtl(mathV2, ch, d) })
	}
	g.place(p0, ns0, false, nil, func(ch []string, d bool) *RegSpec { return g.regCtl(aaCtl, ch, d) })
	for _, h := range rndFuncs {
		h := h
		for k := 1 + g.r.Intn(2); k > 0; k-- {
			g.place(p0, ns0, false, nil, func(c []string, d bool) *RegSpec { return g.regFunc(h, c, d) })
		}
	}
	for _, c := range rndCtls {
		c := c
		g.place(p0, ns0, false, nil, func(ch []string, d bool) *RegSpec { return g.regCtl(c, ch, d) })
		if g.r.Chance(1, 2) { // a method expression of a controller as a function
			h := c.Methods[g.r.Intn(len(c.Methods))]
			g.place(p0, ns0, false, nil, func(ch []string, d bool) *RegSpec { return g.regFunc(h, ch, d) })
		}
	}
	for _, tw := range twins { // same chain: the same name in the CALL and in the PUSH table
		a, b := tw[0], tw[1]
		if rs := g.place(p0, ns0, false, nil, func(c []string, d bool) *RegSpec { return g.regFunc(a, c, d) }); rs != nil {
			rb := g.regFunc(b, rs.Group, false)
			if !ns0.clash(rb) {
				ns0.add(rb)
				p0.Regs = append(p0.Regs, rb)
			}
		}
	}
	for _, c := range cands { // colliding identifiers kept apart by different groups
		a, b := c.a, c.b
		g.place(p0, ns0, false, nil, func(ch []string, d bool) *RegSpec { return g.regFunc(a, ch, d) })
		g.place(p0, ns0, false, nil, func(ch []string, d bool) *RegSpec { return g.regFunc(b, ch, d) })
	}
	for _, h := range ctlFns {
		h := h
		g.place(p0, ns0, false, nil, func(c []string, d bool) *RegSpec { return g.regFunc(h, c, d) })
	}
	g.shuffleRegs(p0)

	// --- peer 1: unknown-handlers set before any registration ---
	p1 := &PeerSpec{Class: c10rt.EarlyUnknown}
	ns1 := nameSet{}
	for i, h := range append(append([]*Handler{}, rndFuncs...), docCall[0], docPush[5]) {
		if i%3 != 0 {
			continue
		}
		h := h
		g.place(p1, ns1, false, nil, func(c []string, d bool) *RegSpec { return g.regFunc(h, c, d) })
	}
	if len(rndCtls) > 0 {
		c := rndCtls[g.r.Intn(len(rndCtls))]
		g.place(p1, ns1, false, nil, func(ch []string, d bool) *RegSpec { return g.regCtl(c, ch, d) })
	}
	g.place(p1, ns1, true, nil, func(ch []string, d bool) *RegSpec { return g.regCtl(aaa, ch, d) })
	g.place(p1, ns1, true, nil, func(ch []string, d bool) *RegSpec { return g.regCtl(bbb, ch, d) })
	for _, h := range exprsFor(1) {
		h := h
		g.place(p1, ns1, false, nil, func(c []string, d bool) *RegSpec { return g.regFunc(h, c, d) })
	}

	// --- peer 2: unknown-handlers set through SubRouter.ToRouter() ---
	p2 := &PeerSpec{Class: c10rt.SubUnknown, UnknownGroup: g.docChain(1 + g.r.Intn(2))}
	ns2 := nameSet{}
	for _, h := range append([]*Handler{xxzz, yyzz, docCall[g.r.Intn(8)], docPush[g.r.Intn(8)]}, firstN(exprsFor(2), 4)...) {
		h := h
		g.place(p2, ns2, true, p2.UnknownGroup, func(c []string, d bool) *RegSpec { return g.regFunc(h, c, d) })
	}
	// --- peers 3 and 4: a header-stage plug-in renames requests (shipped ignorecase; harness alias table) ---
	renamePeer := func(class string, off int) *PeerSpec {
		ps := &PeerSpec{Class: class}
		ns := nameSet{}
		// documented rows that differ only by case under the RPC mapper (Aa_Bb -> Aa.Bb, aa_bb -> aa.bb;
		// Aa__Bb -> Aa_Bb, aa__bb -> aa_bb): kept in one group, so that the lower-case spelling of one name
		// is another handler's name; under HTTP they share a target and go to different groups
		idx := map[string]int{}
		for i, row := range Table {
			idx[row.Ident] = i
		}
		for _, set := range [][]*Handler{docCall, docPush} {
			for _, pr := range [][2]string{{"Aa_Bb", "aa_bb"}, {"Aa__Bb", "aa__bb"}} {
				a, b := set[idx[pr[0]]], set[idx[pr[1]]]
				ra := g.place(ps, ns, true, nil, func(c []string, d bool) *RegSpec { return g.regFunc(a, c, d) })
				if ra == nil {
					continue
				}
				rb := g.regFunc(b, ra.Group, true)
				if !ns.clash(rb) {
					ns.add(rb)
					ps.Regs = append(ps.Regs, rb)
				} else {
					g.nreg--
					g.place(ps, ns, true, nil, func(c []string, d bool) *RegSpec { return g.regFunc(b, c, d) })
				}
			}
		}
		for i, h := range rndFuncs {
			if i%3 != off%3 {
				continue
			}
			h := h
			g.place(ps, ns, false, nil, func(c []string, d bool) *RegSpec { return g.regFunc(h, c, d) })
		}
		for i, c := range rndCtls {
			if i%2 != off%2 {
				continue
			}
			c := c
			g.place(ps, ns, false, nil, func(ch []string, d bool) *RegSpec { return g.regCtl(c, ch, d) })
		}
		for _, tw := range twins { // one name in the CALL and in the PUSH table
			a, b := tw[0], tw[1]
			if rs := g.place(ps, ns, false, nil, func(c []string, d bool) *RegSpec { return g.regFunc(a, c, d) }); rs != nil {
				rb := g.regFunc(b, rs.Group, false)
				if !ns.clash(rb) {
					ns.add(rb)
					ps.Regs = append(ps.Regs, rb)
				}
			}
		}
		g.place(ps, ns, true, nil, func(ch []string, d bool) *RegSpec { return g.regCtl(aaa, ch, d) })
		g.place(ps, ns, true, nil, func(ch []string, d bool) *RegSpec { return g.regCtl(bbb, ch, d) })
		for _, h := range exprsFor(off + 2) {
			h := h
			g.place(ps, ns, false, nil, func(c []string, d bool) *RegSpec { return g.regFunc(h, c, d) })
		}
		return ps
	}
	p3 := renamePeer(c10rt.RenameIgnoreCase, 1)
	p4 := renamePeer(c10rt.RenameAlias, 2)
	p.Peers = []*PeerSpec{p0, p1, p2, p3, p4}

	// --- colliding pairs (grandchild runs) ---
	addCol := func(class string, a, b *RegSpec, survive bool) {
		if a == nil || b == nil {
			return
		}
		p.Collisions = append(p.Collisions, &CollisionSpec{ID: fmt.Sprintf("X%d", len(p.Collisions)), Class: class, A: a, B: b, PClass: a.PClass + "~" + b.PClass,
			What: a.What + " in " + fmt.Sprintf("%q", a.Group) + "  +  " + b.What + " in " + fmt.Sprintf("%q", b.Group), ExpectSurvive: survive})
	}
	// ONE controller whose own methods map to the same name: a single RouteCall / RoutePush must be
	// refused loudly (call and push flavours; pairs from the documented table under HTTP, pairs found
	// with the mapper - planning only - under both mappers)
	{
		var pairs [][2]string
		if g.mapper == "http" { // table rows with one target, both identifiers exported
			pairs = append(pairs, [2]string{"AaBb", "Aa__Bb"}, [2]string{"ABcXYz", "ABC__XYZ"})
		}
		byOut := map[string][]string{}
		var ids []string
		for _, row := range Table {
			ids = append(ids, row.Ident)
		}
		ids = append(ids, fixedPool...)
		ids = append(ids, "XyZ", "Xy__Z", "Xy___Z", "Aa___Bb", "Aa____Bb", "GetUser", "Get__User", "Get___User")
		for i := 0; i < 80; i++ {
			ids = append(ids, synth(g.r, true))
		}
		seen := map[string]bool{}
		for _, id := range ids {
			if reserved[id] || seen[id] || !exported(id) || len(id) > 24 {
				continue
			}
			seen[id] = true
			o := g.m("", id)
			byOut[o] = append(byOut[o], id)
		}
		var outs []string
		for o, l := range byOut {
			if len(l) >= 2 {
				outs = append(outs, o)
			}
		}
		sort.Strings(outs)
		for k := 0; k < 4 && len(outs) > 0; k++ {
			l := byOut[outs[g.r.Intn(len(outs))]]
			i := g.r.Intn(len(l))
			j := (i + 1 + g.r.Intn(len(l)-1)) % len(l)
			pairs = append(pairs, [2]string{l[i], l[j]})
		}
		for k, pr := range pairs {
			push := k%2 == 1
			ms := []string{pr[0], pr[1]}
			if g.r.Chance(1, 2) { // a bystander method
				ms = append(ms, g.pickIdent(true))
			}
			var c *Controller
			for try := 0; try < 20 && c == nil; try++ {
				name := g.pickIdent(false)
				if try > 10 {
					name = fmt.Sprintf("Ctl%d", g.r.Intn(1000))
				}
				c = g.ctl([]string{"main", "alt", "ctl"}[g.r.Intn(3)], push, name, ms)
			}
			if c == nil || len(c.Methods) < 2 {
				continue
			}
			class := "one-controller-predicted-same-name"
			if g.mapper == "http" && k < 2 {
				class = "one-controller-doc-rows-same-target"
			}
			a := g.regCtl(c, g.anyChain(g.r.Intn(3)), false)
			p.Collisions = append(p.Collisions, &CollisionSpec{ID: fmt.Sprintf("X%d", len(p.Collisions)), Class: class, A: a, Single: true,
				PClass: Classify(pr[0]) + "~" + Classify(pr[1]),
				What:   a.What + " in " + fmt.Sprintf("%q", a.Group) + " (one registration; methods " + pr[0] + " and " + pr[1] + ")"})
		}
	}
	pickF := func() *Handler { return rndFuncs[g.r.Intn(len(rndFuncs))] }
	{
		h := pickF()
		c := g.anyChain(g.r.Intn(3))
		addCol("same-func-twice", g.regFunc(h, c, false), g.regFunc(h, c, false), false)
		h = pickF()
		c = g.anyChain(1 + g.r.Intn(3))
		b := g.regFunc(h, c, false)
		b.Fresh = true
		addCol("same-func-second-subrouter", g.regFunc(h, c, false), b, false)
		ct := []*Controller{aaa, bbb, docCtlA, docCtlB}[g.r.Intn(4)]
		if len(rndCtls) > 0 && g.r.Chance(1, 2) {
			ct = rndCtls[g.r.Intn(len(rndCtls))]
		}
		c = g.anyChain(g.r.Intn(3))
		addCol("same-struct-twice", g.regCtl(ct, c, false), g.regCtl(ct, c, false), false)
		// a controller and one of its own method expressions registered where the names meet is undocumented: skipped
	}
	// documentation: struct Aa + method Bb is Aa.Bb / /aa/bb, and so is func Aa_Bb (table row)
	{
		c := g.docChain(g.r.Intn(3))
		var aabb *Handler
		for i, row := range Table {
			if row.Ident == "Aa_Bb" {
				aabb = docCall[i]
			}
		}
		a, b := g.regCtl(aaCtl, c, true), g.regFunc(aabb, c, true)
		if g.r.Chance(1, 2) {
			a, b = b, a
		}
		addCol("doc-struct-vs-func", a, b, false)
	}
	if g.mapper == "http" { // rows of the HTTP table that share a target
		pairs := [][2]string{{"AaBb", "Aa__Bb"}, {"Aa__Bb", "aa__bb"}, {"AaBb", "aa__bb"}, {"ABcXYz", "ABC__XYZ"}, {"Aa_Bb", "aa_bb"}}
		idx := func(id string) int {
			for i, row := range Table {
				if row.Ident == id {
					return i
				}
			}
			return 0
		}
		for k := 0; k < 3; k++ {
			pr := pairs[g.r.Intn(len(pairs))]
			c := g.docChain(g.r.Intn(3))
			set := docCall
			if g.r.Chance(1, 2) {
				set = docPush
			}
			addCol("doc-rows-same-target", g.regFunc(set[idx(pr[0])], c, true), g.regFunc(set[idx(pr[1])], c, true), false)
		}
	}
	for _, cd := range cands {
		c := g.anyChain(g.r.Intn(3))
		addCol("predicted-same-name", g.regFunc(cd.a, c, false), g.regFunc(cd.b, c, false), false)
	}
	for _, tw := range twins {
		c := g.anyChain(g.r.Intn(3))
		addCol("call-and-push-same-name", g.regFunc(tw[0], c, false), g.regFunc(tw[1], c, false), true)
	}
	{
		i := g.r.Intn(8)
		c := g.docChain(g.r.Intn(3))
		addCol("call-and-push-same-name", g.regFunc(docCall[i], c, true), g.regFunc(docPush[i], c, true), true)
		a, b := pickF(), pickF()
		ra, rb := g.regFunc(a, g.anyChain(1), false), g.regFunc(b, g.anyChain(2), false)
		if ra.Predicted[0] != rb.Predicted[0] {
			addCol("control-different-names", ra, rb, true)
		}
	}

	// --- direct evaluations (cross-process determinism) ---
	for _, row := range Table {
		p.Direct = append(p.Direct, [2]string{"", row.Ident})
	}
	for i := 0; i < 40; i++ {
		p.Direct = append(p.Direct, [2]string{g.prefix(g.anyChain(g.r.Intn(3))), g.pickIdent(false)})
	}

	p.NHandlers = len(g.handlers)
	p.Files = g.source(p)
	return p
}

func (g *gen) shuffleRegs(ps *PeerSpec) {
	for i := len(ps.Regs) - 1; i > 0; i-- {
		j := g.r.Intn(i + 1)
		ps.Regs[i], ps.Regs[j] = ps.Regs[j], ps.Regs[i]
	}
}

// ---------- source ----------

func regLit(rs *RegSpec) string {
	var b strings.Builder
	fmt.Fprintf(&b, "{ID: %q, Kind: %q, Form: %q, V: %s, Tags: %s", rs.ID, rs.Kind, rs.Form, rs.Expr, strLit(rs.Tags))
	if len(rs.Group) > 0 {
		fmt.Fprintf(&b, ", Group: %s", strLit(rs.Group))
	}
	if rs.Fresh {
		b.WriteString(", Fresh: true")
	}
	b.WriteString("}")
	return b.String()
}

func strLit(l []string) string {
	var q []string
	for _, s := range l {
		q = append(q, strconv.Quote(s))
	}
	return "[]string{" + strings.Join(q, ", ") + "}"
}

func (g *gen) defs(pkg string) (string, []string) {
	var b strings.Builder
	var keys []string
	for _, c := range g.ctls {
		if c.Pkg != pkg {
			continue
		}
		ctx := "erpc.CallCtx"
		if c.Push {
			ctx = "erpc.PushCtx"
		}
		fmt.Fprintf(&b, "type %s struct {\n\t%s\n\tc10guard c10rt.Guard\n}\n\n", c.Name, ctx)
		keys = append(keys, "new("+c.Name+")")
		for _, h := range c.Methods {
			if c.Push {
				fmt.Fprintf(&b, "func (c *%s) %s(arg *string) *erpc.Status { return c10rt.PushCtl(%q, &c.c10guard, c.PushCtx, arg) }\n\n", c.Name, h.Ident, h.Tag)
			} else {
				fmt.Fprintf(&b, "func (c *%s) %s(arg *string) (string, *erpc.Status) { return c10rt.CallCtl(%q, &c.c10guard, c.CallCtx, arg) }\n\n", c.Name, h.Ident, h.Tag)
			}
			keys = append(keys, "(*"+c.Name+")."+h.Ident)
		}
	}
	for _, h := range g.handlers {
		if h.Pkg != pkg || h.Method {
			continue
		}
		if h.Ctl != "" && h.Push { // a function (not a method) whose first parameter is a controller pointer
			fmt.Fprintf(&b, "func %s(c *%s, arg *string) *erpc.Status { return c10rt.PushCtl(%q, &c.c10guard, c.PushCtx, arg) }\n\n", h.Ident, h.Ctl, h.Tag)
		} else if h.Ctl != "" {
			fmt.Fprintf(&b, "func %s(c *%s, arg *string) (string, *erpc.Status) { return c10rt.CallCtl(%q, &c.c10guard, c.CallCtx, arg) }\n\n", h.Ident, h.Ctl, h.Tag)
		} else if h.Push {
			fmt.Fprintf(&b, "func %s(ctx erpc.PushCtx, arg *string) *erpc.Status { return c10rt.Push(%q, ctx, arg) }\n\n", h.Ident, h.Tag)
		} else {
			fmt.Fprintf(&b, "func %s(ctx erpc.CallCtx, arg *string) (string, *erpc.Status) { return c10rt.Call(%q, ctx, arg) }\n\n", h.Ident, h.Tag)
		}
		keys = append(keys, h.Ident)
	}
	return b.String(), keys
}

// ModulePath is the module path of generated programs (no dots: the router derives a function's
// name from the text after the last '.' of its runtime symbol).
const ModulePath = "c10prog"

func (g *gen) source(p *Program) map[string]string {
	files := map[string]string{}
	var m strings.Builder
	m.WriteString("// Code generated by verifharness/c10gen (property C10). DO NOT EDIT.\n\npackage main\n\n")
	m.WriteString("import (\n")
	for _, pk := range Packages[1:] {
		m.WriteString("\t" + pk + " \"" + ModulePath + "/" + pk + "\"\n")
	}
	m.WriteString("\n\terpc \"github.com/henrylee2cn/erpc/v6\"\n\n\t\"verifharness/c10rt\"\n)\n\n")
	for _, pk := range Packages[1:] {
		m.WriteString("var _ = " + pk + ".V\n")
	}
	m.WriteString("\nvar _ erpc.Peer\n\n")
	d, _ := g.defs("main")
	m.WriteString(d)
	m.WriteString("func main() {\n\tc10rt.Main(c10rt.Program{\n")
	fmt.Fprintf(&m, "\t\tMapper: %q,\n\t\tSeed: %d,\n\t\tRounds: %d,\n\t\tPeers: []c10rt.PeerSpec{\n", p.Mapper, p.Seed, p.Rounds)
	for _, ps := range p.Peers {
		fmt.Fprintf(&m, "\t\t\t{Class: %q, UnknownGroup: %s, Regs: []c10rt.Reg{\n", ps.Class, strLit(ps.UnknownGroup))
		for _, rs := range ps.Regs {
			m.WriteString("\t\t\t\t" + regLit(rs) + ",\n")
		}
		m.WriteString("\t\t\t}},\n")
	}
	m.WriteString("\t\t},\n\t\tCollisions: []c10rt.Collision{\n")
	for _, c := range p.Collisions {
		if c.Single {
			fmt.Fprintf(&m, "\t\t\t{ID: %q, Class: %q, Single: true,\n\t\t\t\tA: c10rt.Reg%s},\n", c.ID, c.Class, regLit(c.A))
			continue
		}
		fmt.Fprintf(&m, "\t\t\t{ID: %q, Class: %q,\n\t\t\t\tA: c10rt.Reg%s,\n\t\t\t\tB: c10rt.Reg%s},\n", c.ID, c.Class, regLit(c.A), regLit(c.B))
	}
	m.WriteString("\t\t},\n\t\tDirect: [][2]string{\n")
	for _, dd := range p.Direct {
		fmt.Fprintf(&m, "\t\t\t{%q, %q},\n", dd[0], dd[1])
	}
	m.WriteString("\t\t},\n\t})\n}\n")
	files["main.go"] = m.String()

	for _, pk := range Packages[1:] {
		var a strings.Builder
		a.WriteString("// Code generated by verifharness/c10gen (property C10). DO NOT EDIT.\n\npackage " + pk + "\n\n")
		a.WriteString("import (\n\terpc \"github.com/henrylee2cn/erpc/v6\"\n\n\t\"verifharness/c10rt\"\n)\n\n")
		a.WriteString("var _ erpc.Peer\n\nvar _ = c10rt.Call\n\n")
		d, keys := g.defs(pk)
		a.WriteString(d)
		a.WriteString("// V gives package main access to the (partly unexported) identifiers of this package.\nvar V = map[string]interface{}{\n")
		for _, k := range keys {
			fmt.Fprintf(&a, "\t%q: %s,\n", k, k)
		}
		a.WriteString("}\n")
		files[pk+"/"+pk+".go"] = a.String()
	}
	for k, v := range files {
		if f, err := format.Source([]byte(v)); err == nil {
			files[k] = string(f)
		} else {
			files[k] = v + "\n// gofmt: " + err.Error() + "\n"
		}
	}
	return files
}

// GoMod returns the go.mod of a generated program.
func GoMod(harnessDir, repoDir string) string {
	return "module " + ModulePath + "\n\ngo 1.16\n\nrequire (\n\tgithub.com/henrylee2cn/erpc/v6 v6.0.0\n\tverifharness v0.0.0\n)\n\n" +
		"replace github.com/henrylee2cn/erpc/v6 => " + repoDir + "\n\nreplace verifharness => " + harnessDir + "\n"
}

// RandIdent draws an identifier over the identifier alphabet (fixed pool or synthesised).
func RandIdent(r *core.Rand) string {
	if r.Chance(1, 3) {
		return fixedPool[r.Intn(len(fixedPool))]
	}
	return synth(r, r.Chance(1, 2))
}

func firstN(hs []*Handler, n int) []*Handler {
	if len(hs) > n {
		return hs[:n]
	}
	return hs
}
