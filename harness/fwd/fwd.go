// Package fwd is a loopback TCP forwarder with programmable faults, used between a dialing eRPC
// client peer and a serving peer. Faults are expressed in connection attempts and bytes, never in
// seconds: refuse the next m attempts, forward only k more bytes of a direction and then kill both
// sides, kill the current connection now, take the listening port down (real ECONNREFUSED) and up.
package fwd

import (
	"fmt"
	"net"
	"sync"
	"syscall"
	"time"
)

// Direction of a byte stream through the forwarder.
const (
	C2S = 0 // client -> server
	S2C = 1 // server -> client
)

// Rec is what the forwarder observed for one connection attempt.
type Rec struct {
	N          int    `json:"n"`           // attempt number, 1-based
	ClientAddr string `json:"client_addr"` // remote address of the accepted connection = local address of the dialing socket
	Refused    bool   `json:"refused"`     // accepted at TCP level and closed at once
	Forwarded  bool   `json:"forwarded"`   // connected to the target and piped
	C2S        int64  `json:"c2s"`         // bytes forwarded client -> server
	S2C        int64  `json:"s2c"`         // bytes forwarded server -> client
	Fault      string `json:"fault"`       // "", "cut-c2s", "cut-s2c", "drop"
	Ended      bool   `json:"ended"`
}

// Pipe is one forwarded connection.
type Pipe struct {
	f      *Forwarder
	n      int
	cli    net.Conn
	srv    net.Conn
	mu     sync.Mutex
	cnt    [2]int64
	limit  [2]int64 // absolute byte count at which the pipe is killed; -1 = none
	rst    bool
	stall  bool // at the limit: stop reading the client, half-close towards it, close the server side
	fault  string
	dead   bool
	killed chan struct{}
}

// Forwarder accepts on its own loopback port and pipes to target.
type Forwarder struct {
	target string
	addr   string
	port   int

	mu       sync.Mutex
	lis      net.Listener
	holdFD   int // placeholder socket bound (not listening) to the port while down; -1 otherwise
	down     bool
	closed   bool
	refuse   int // refuse the next n attempts; <0 = all
	refRST   bool
	attempts int
	recs     []*Rec
	pipes    []*Pipe
	late     []net.Conn // client connections of stalled pipes, closed by Close
	wg       sync.WaitGroup
}

// New starts a forwarder on 127.0.0.1:0 towards target.
func New(target string) (*Forwarder, error) {
	lis, err := net.Listen("tcp4", "127.0.0.1:0")
	if err != nil {
		return nil, err
	}
	f := &Forwarder{target: target, lis: lis, addr: lis.Addr().String(), port: lis.Addr().(*net.TCPAddr).Port, holdFD: -1}
	f.wg.Add(1)
	go f.acceptLoop(lis)
	return f, nil
}

// Addr is the address clients dial.
func (f *Forwarder) Addr() string { return f.addr }

// Refuse makes the forwarder refuse the next m attempts (m < 0: every attempt until Refuse(0)); a
// refused attempt is accepted at TCP level and closed immediately (reset when rst), and counted.
func (f *Forwarder) Refuse(m int, rst bool) {
	f.mu.Lock()
	f.refuse = m
	f.refRST = rst
	f.mu.Unlock()
}

// Attempts returns the number of connection attempts seen (refused or forwarded).
func (f *Forwarder) Attempts() int {
	f.mu.Lock()
	defer f.mu.Unlock()
	return f.attempts
}

// Forwards returns the number of forwarded connections so far.
func (f *Forwarder) Forwards() int {
	f.mu.Lock()
	defer f.mu.Unlock()
	return len(f.pipes)
}

// Records returns a copy of the per-attempt records.
func (f *Forwarder) Records() []Rec {
	f.mu.Lock()
	ps := append([]*Pipe(nil), f.pipes...)
	f.mu.Unlock()
	for _, p := range ps {
		p.sync()
	}
	f.mu.Lock()
	defer f.mu.Unlock()
	out := make([]Rec, len(f.recs))
	for i, r := range f.recs {
		out[i] = *r
	}
	return out
}

// Current returns the most recent forwarded connection (nil when none).
func (f *Forwarder) Current() *Pipe {
	f.mu.Lock()
	defer f.mu.Unlock()
	if len(f.pipes) == 0 {
		return nil
	}
	return f.pipes[len(f.pipes)-1]
}

// Live returns the forwarded connections that have not ended.
func (f *Forwarder) Live() []*Pipe {
	f.mu.Lock()
	ps := append([]*Pipe(nil), f.pipes...)
	f.mu.Unlock()
	var out []*Pipe
	for _, p := range ps {
		if !p.Dead() {
			out = append(out, p)
		}
	}
	return out
}

func setLinger0(c net.Conn) {
	if t, ok := c.(*net.TCPConn); ok {
		t.SetLinger(0)
	}
}

func (f *Forwarder) acceptLoop(lis net.Listener) {
	defer f.wg.Done()
	for {
		c, err := lis.Accept()
		if err != nil {
			return
		}
		f.mu.Lock()
		if f.closed || f.down {
			f.mu.Unlock()
			setLinger0(c)
			c.Close()
			continue
		}
		f.attempts++
		rec := &Rec{N: f.attempts, ClientAddr: c.RemoteAddr().String()}
		f.recs = append(f.recs, rec)
		refuse := false
		if f.refuse != 0 {
			refuse = true
			if f.refuse > 0 {
				f.refuse--
			}
		}
		rst := f.refRST
		if refuse {
			rec.Refused = true
			rec.Ended = true
			f.mu.Unlock()
			if rst {
				setLinger0(c)
			}
			c.Close()
			continue
		}
		f.mu.Unlock()
		s, err := net.DialTimeout("tcp4", f.target, 5*time.Second)
		if err != nil {
			f.mu.Lock()
			rec.Refused = true
			rec.Fault = "target-unreachable"
			rec.Ended = true
			f.mu.Unlock()
			c.Close()
			continue
		}
		p := &Pipe{f: f, n: rec.N, cli: c, srv: s, limit: [2]int64{-1, -1}, killed: make(chan struct{})}
		f.mu.Lock()
		if f.closed {
			f.mu.Unlock()
			c.Close()
			s.Close()
			continue
		}
		rec.Forwarded = true
		f.pipes = append(f.pipes, p)
		f.wg.Add(2)
		f.mu.Unlock()
		go p.copy(C2S, c, s)
		go p.copy(S2C, s, c)
	}
}

func (p *Pipe) copy(dir int, from, to net.Conn) {
	defer p.f.wg.Done()
	buf := make([]byte, 64<<10)
	for {
		n, err := from.Read(buf)
		if n > 0 {
			p.mu.Lock()
			if p.dead {
				p.mu.Unlock()
				return
			}
			allowed := int64(n)
			hit := false
			if lim := p.limit[dir]; lim >= 0 {
				if rest := lim - p.cnt[dir]; rest <= allowed {
					allowed = rest
					hit = true
				}
			}
			p.mu.Unlock()
			if allowed > 0 {
				// counted before it is written: whoever sees the effect of these bytes also sees the count
				p.mu.Lock()
				p.cnt[dir] += allowed
				p.mu.Unlock()
				if _, werr := to.Write(buf[:allowed]); werr != nil {
					p.kill("", false)
					return
				}
			}
			if hit {
				p.mu.Lock()
				rst, stall := p.rst, p.stall
				p.mu.Unlock()
				if stall && dir == C2S {
					p.stallFin()
					return
				}
				p.kill([]string{"cut-c2s", "cut-s2c"}[dir], rst)
				return
			}
		}
		if err != nil {
			p.kill("", false)
			return
		}
	}
}

func (p *Pipe) kill(fault string, rst bool) {
	p.mu.Lock()
	if p.dead {
		p.mu.Unlock()
		return
	}
	p.dead = true
	if fault != "" {
		p.fault = fault
	}
	close(p.killed)
	p.mu.Unlock()
	if rst {
		setLinger0(p.cli)
		setLinger0(p.srv)
	}
	p.cli.Close()
	p.srv.Close()
	p.sync()
}

// stallFin ends the pipe from the client's point of view with an orderly end of stream while the
// forwarder stops consuming what the client sends: a writer with more data than the socket buffers
// stays blocked in its write while the reader sees EOF. The client connection is only closed by
// Forwarder.Close.
func (p *Pipe) stallFin() {
	p.mu.Lock()
	if p.dead {
		p.mu.Unlock()
		return
	}
	p.dead = true
	p.fault = "stall-fin"
	close(p.killed)
	p.mu.Unlock()
	p.srv.Close()
	if t, ok := p.cli.(*net.TCPConn); ok {
		t.CloseWrite()
	}
	p.f.mu.Lock()
	p.f.late = append(p.f.late, p.cli)
	p.f.mu.Unlock()
	p.sync()
}

// Reset closes the client side of a stalled pipe with a reset (what a peer that has gone away
// answers to the data or window probes that follow its end of stream).
func (p *Pipe) Reset() {
	setLinger0(p.cli)
	p.cli.Close()
}

func (p *Pipe) sync() {
	p.mu.Lock()
	c, s, fault, dead := p.cnt[C2S], p.cnt[S2C], p.fault, p.dead
	p.mu.Unlock()
	p.f.mu.Lock()
	r := p.f.recs[p.n-1]
	r.C2S, r.S2C, r.Ended = c, s, dead
	if fault != "" {
		r.Fault = fault
	}
	p.f.mu.Unlock()
}

// CutAfter arms a fault: after k more bytes of direction dir have been forwarded, both sides are
// closed (with a reset when rst). With k = 0 the kill happens when the next byte arrives.
func (p *Pipe) CutAfter(dir int, k int64, rst bool) {
	p.mu.Lock()
	p.limit[dir] = p.cnt[dir] + k
	p.rst = rst
	p.mu.Unlock()
}

// StallAfter arms a fault: after k more bytes client -> server the forwarder stops reading the
// client, sends it an orderly end of stream and closes the server side.
func (p *Pipe) StallAfter(k int64) {
	p.mu.Lock()
	p.limit[C2S] = p.cnt[C2S] + k
	p.stall = true
	p.mu.Unlock()
}

// Drop kills the connection now.
func (p *Pipe) Drop(rst bool) { p.kill("drop", rst) }

// Count returns the bytes forwarded so far in a direction.
func (p *Pipe) Count(dir int) int64 {
	p.mu.Lock()
	defer p.mu.Unlock()
	return p.cnt[dir]
}

// Dead reports whether the pipe has ended.
func (p *Pipe) Dead() bool {
	p.mu.Lock()
	defer p.mu.Unlock()
	return p.dead
}

// Done is closed when the pipe has ended.
func (p *Pipe) Done() <-chan struct{} { return p.killed }

// ClientAddr is the address the client dialed from.
func (p *Pipe) ClientAddr() string { return p.cli.RemoteAddr().String() }

// N is the attempt number of this connection.
func (p *Pipe) N() int { return p.n }

// KillAll kills every live forwarded connection (the forwarder keeps accepting).
func (f *Forwarder) KillAll() {
	f.mu.Lock()
	ps := append([]*Pipe(nil), f.pipes...)
	late := f.late
	f.late = nil
	f.mu.Unlock()
	for _, p := range ps {
		p.kill("", false)
	}
	for _, c := range late {
		c.Close()
	}
}

// Down closes the listening socket so that dialing is refused by the kernel (ECONNREFUSED). The port
// stays reserved by a bound, non-listening placeholder socket. Attempts made while down are not
// observable. Live connections are not touched.
func (f *Forwarder) Down() error {
	f.mu.Lock()
	defer f.mu.Unlock()
	if f.down || f.closed {
		return nil
	}
	f.down = true
	f.lis.Close()
	fd, err := syscall.Socket(syscall.AF_INET, syscall.SOCK_STREAM|syscall.SOCK_CLOEXEC, 0)
	if err != nil {
		return err
	}
	syscall.SetsockoptInt(fd, syscall.SOL_SOCKET, syscall.SO_REUSEADDR, 1)
	if err := syscall.Bind(fd, &syscall.SockaddrInet4{Port: f.port, Addr: [4]byte{127, 0, 0, 1}}); err != nil {
		syscall.Close(fd)
		return fmt.Errorf("placeholder bind: %v", err)
	}
	f.holdFD = fd
	return nil
}

// Up listens on the same port again.
func (f *Forwarder) Up() error {
	f.mu.Lock()
	defer f.mu.Unlock()
	if !f.down || f.closed {
		return nil
	}
	if f.holdFD >= 0 {
		syscall.Close(f.holdFD)
		f.holdFD = -1
	}
	lis, err := net.Listen("tcp4", f.addr)
	if err != nil {
		return err
	}
	f.lis = lis
	f.down = false
	f.wg.Add(1)
	go f.acceptLoop(lis)
	return nil
}

// IsDown reports whether the listening port is down.
func (f *Forwarder) IsDown() bool {
	f.mu.Lock()
	defer f.mu.Unlock()
	return f.down
}

// Close stops the forwarder, kills all connections and waits for its goroutines.
func (f *Forwarder) Close() {
	f.mu.Lock()
	if f.closed {
		f.mu.Unlock()
		return
	}
	f.closed = true
	if !f.down {
		f.lis.Close()
	}
	if f.holdFD >= 0 {
		syscall.Close(f.holdFD)
		f.holdFD = -1
	}
	ps := append([]*Pipe(nil), f.pipes...)
	late := f.late
	f.late = nil
	f.mu.Unlock()
	for _, p := range ps {
		p.kill("", false)
	}
	for _, c := range late {
		c.Close()
	}
	f.wg.Wait()
}
