// Package rawpeer is a scripted byte-level far end: frames are produced by the protocol's own
// Pack (valid by construction), sent as-is or mutated, and everything the system under test
// writes back is captured and parsed with the same protocol's Unpack.
package rawpeer

import (
	"bytes"
	"fmt"
	"io"
	"strings"
	"sync"

	erpc "github.com/henrylee2cn/erpc/v6"

	"verifharness/memconn"
	"verifharness/protos"
	"verifharness/wire"
)

// Pack packs the specs with one protocol object and returns one byte string per frame.
func Pack(p protos.P, specs ...wire.Spec) ([][]byte, error) {
	var w bytes.Buffer
	pr := p.Func(wire.RW{Reader: bytes.NewReader(nil), Writer: &w})
	var out [][]byte
	for i, s := range specs {
		m, err := wire.Build(s, p)
		if err != nil {
			return nil, fmt.Errorf("frame %d: %v", i, err)
		}
		before := w.Len()
		if err := safely(func() error { return pr.Pack(m) }); err != nil {
			return nil, fmt.Errorf("frame %d: %v", i, err)
		}
		out = append(out, append([]byte(nil), w.Bytes()[before:]...))
	}
	return out, nil
}

func safely(f func() error) (err error) {
	defer func() {
		if r := recover(); r != nil {
			err = fmt.Errorf("PANIC: %v", r)
		}
	}()
	return f()
}

// Parse unpacks as many frames as the byte string holds; err is non-nil if trailing bytes do not form a frame.
func Parse(p protos.P, b []byte) (out []wire.Spec, err error) {
	cr := &wire.ChunkReader{B: b}
	pr := p.Func(wire.RW{Reader: cr, Writer: io.Discard})
	for {
		m := wire.NewReceiver(p)
		e := safely(func() error { return pr.Unpack(m) })
		if e != nil {
			if e == io.EOF || (strings.Contains(e.Error(), "EOF") && cr.Off >= len(b)) {
				return out, nil
			}
			return out, e
		}
		out = append(out, wire.Extract(m, p))
		if !p.Stream {
			// message-framed sub-protocols take the whole input as one message
			return out, nil
		}
	}
}

// Conn is the scripted end of a connection served by a real peer.
type Conn struct {
	C    *memconn.Conn // the script's end
	S    *memconn.Conn // the served end
	Sess erpc.Session  // the session the peer created (nil if the accept failed)
	Stat *erpc.Status

	mu   sync.Mutex
	buf  []byte
	eof  bool
	rerr error
	done chan struct{}
}

// Dial creates a connection whose far end is served by srv with protocol pf; a reader goroutine
// collects everything srv writes. pre (optional) runs before ServeConn starts, e.g. to pre-load bytes.
func Dial(srv erpc.Peer, pf erpc.ProtoFunc, pre func(c *Conn)) *Conn {
	ca, cb := memconn.NewPair()
	c := &Conn{C: ca, S: cb, done: make(chan struct{})}
	go func() {
		defer close(c.done)
		tmp := make([]byte, 32*1024)
		for {
			n, err := ca.Read(tmp)
			c.mu.Lock()
			c.buf = append(c.buf, tmp[:n]...)
			if err != nil {
				c.eof = true
				c.rerr = err
				c.mu.Unlock()
				return
			}
			c.mu.Unlock()
		}
	}()
	if pre != nil {
		pre(c)
	}
	c.Sess, c.Stat = srv.ServeConn(cb, pf)
	return c
}

// Write sends bytes to the peer (errors are ignored: the peer may have hung up).
func (c *Conn) Write(b []byte) { c.C.Write(b) }

// Received returns a copy of what the peer wrote so far and whether the peer closed.
func (c *Conn) Received() ([]byte, bool) {
	c.mu.Lock()
	defer c.mu.Unlock()
	return append([]byte(nil), c.buf...), c.eof
}

// Close closes the script's end and waits for the reader.
func (c *Conn) Close() {
	c.C.Close()
	<-c.done
}
