"""Analysis of Go race detector reports for C14.

A report block has two (or more) stacks: "Read/Write at ... by goroutine N:" and "Previous read/write at ... by goroutine M:".
Each stack's *accessing frame* is its innermost frame outside the Go runtime / sync / reflect internals.
Classification (DESIGN.md C14):
  - at least one accessing frame in an eRPC package          -> violation (key = sorted pair of innermost eRPC frames)
  - both in harness code (verifharness/ or main.)            -> the harness itself is racy: broken check
  - both in third-party code, reached through eRPC frames    -> violation keyed by the nearest eRPC caller frames
"""
import re

ERPC = "github.com/henrylee2cn/erpc/v6"
ACCESS_RE = re.compile(r"^(Read|Write|Previous read|Previous write|Atomic [a-z]+|Previous atomic [a-z]+) at 0x[0-9a-f]+ by (goroutine \d+|main goroutine):")


def parse_stacks(blk):
    stacks, cur = [], None
    for line in blk.split("\n"):
        if ACCESS_RE.match(line.strip()):
            cur = []
            stacks.append(cur)
            continue
        if line.strip().startswith("Goroutine ") and "created at" in line:
            cur = None
            continue
        if cur is None:
            continue
        s = line.strip()
        if not s or s.startswith("/") or s.startswith("Goroutine"):
            continue
        if line.startswith("  ") and not line.startswith("      "):
            fn = re.sub(r"\([^()]*\)$", "", s)  # drop the trailing argument list only: "pkg.(*T).M()" -> "pkg.(*T).M"
            cur.append(fn)
    return stacks


def is_internal(fn):
    # standard library frames: the accessing frame of a stack is the innermost frame outside of them
    return fn.startswith(("runtime.", "sync.", "sync/atomic.", "reflect.", "internal/", "bytes.", "strings.", "unicode", "fmt.", "strconv.", "encoding/", "bufio.", "io.", "io/",
                          "sort.", "math", "net.", "net/", "syscall.", "os.", "time.", "context.", "compress/", "crypto/", "hash/", "errors.", "regexp.", "container/", "text/", "log."))


def is_harness(fn):
    return fn.startswith(("verifharness/", "main."))


def is_erpc(fn):
    return fn.startswith(ERPC)


def strip(fn):
    fn = fn.replace(ERPC, "erpc")
    return re.sub(r"\.func\d+(\.\d+)*$", ".func", fn)


def analyse(blocks):
    viol, broken, keys = {}, [], {}
    for blk in blocks:
        stacks = parse_stacks(blk)[:2]
        if len(stacks) < 2:
            continue
        acc, erpcf = [], []
        for st in stacks:
            a = next((f for f in st if not is_internal(f)), st[0] if st else "?")
            acc.append(a)
            erpcf.append(next((f for f in st if is_erpc(f)), None))
        if any(is_erpc(a) for a in acc):
            key = " <> ".join(sorted(strip(a) for a in acc))
        elif all(is_harness(a) for a in acc):
            # both accesses in harness code: only a harness bug if no eRPC-provided data is involved; we cannot tell -> broken
            key = "HARNESS " + " <> ".join(sorted(strip(a) for a in acc))
            if key not in keys:
                broken.append("race between harness frames: " + key)
            keys[key] = keys.get(key, 0) + 1
            continue
        elif any(e for e in erpcf):
            key = "via " + " <> ".join(sorted(strip(e) if e else strip(a) for e, a in zip(erpcf, acc)))
        else:
            key = "OTHER " + " <> ".join(sorted(strip(a) for a in acc))
            if key not in keys:
                broken.append("race outside eRPC and harness: " + key)
            keys[key] = keys.get(key, 0) + 1
            continue
        keys[key] = keys.get(key, 0) + 1
        if key not in viol:
            viol[key] = {"fp": "C14/race/" + key, "what": "data race: " + key, "witness": blk[:6000], "desc": {"class": "race"}, "case": None}
    return {"violations": list(viol.values()), "broken": broken, "total": len(blocks), "distinct": len(keys), "keys": keys}
