#!/usr/bin/env python3
"""Regenerates MANIFEST.json from vprops.py (claimed checks) and napplicable.json (unclaimed properties)."""
import json, os, subprocess, sys
ROOT = os.path.dirname(os.path.abspath(__file__))
sys.path.insert(0, ROOT)
from vprops import PROPS

allids = [json.loads(l)["id"] for l in open(os.path.join(ROOT, "properties.jsonl")) if l.strip()]
na = json.load(open(os.path.join(ROOT, "napplicable.json")))
hooks = subprocess.run(["git", "-C", "/repo", "log", "--format=%H %s"], stdout=subprocess.PIPE, text=True).stdout.split("\n")
hook_commits = [l.split(" ")[0] for l in hooks if " verif hook" in l]
engines = {}
checks = []
for pid in sorted(PROPS):
    c = PROPS[pid]
    if not c.get('ready'):
        continue
    checks.append({
        "property_id": pid,
        "quick_cmd": "./vcheck %s quick" % pid,
        "thorough_cmd": "./vcheck %s thorough" % pid,
        "evidence_file": "/verif/evidence/%s.json" % pid,
        "replay_cmd_template": "./vcheck replay {path}",
        "engine": c["bin"],
        "level_claimed": {"category": c["level"], "text": c["level_text"], "design_ref": c.get("design_ref", "DESIGN.md section 4 " + pid)},
        "level_note": c["level_note"],
        "technique": c["technique"],
    })
    engines.setdefault(c["bin"], []).append(pid)
m = {
    "version": 1,
    "setup_cmd": "./vcheck build all",
    "hooks": {
        "guard": "verif",
        "enable": "go build -tags verif (workers under /verif/harness/cmd/*, module replace => /repo); race workers add -race -gcflags=all=-d=checkptr=0",
        "baseline_off_cmd": "./vcheck baseline-off",
        "source_commits": hook_commits,
        "add_only": True,
    },
    "engines": [{"name": k, "path": "harness/cmd/" + k, "serves_properties": v, "kind_free_text": "Go worker (child process per batch) driven by ./vcheck"} for k, v in sorted(engines.items())],
    "checks": checks,
    "not_applicable": [{"property_id": p, "reason": na.get(p, "check not built yet in this session (runtime monitoring applies; see DESIGN.md section 4)")} for p in allids if not PROPS.get(p, {}).get('ready')],
    "notes": "Runtime monitoring: every check runs the real code in child processes under monitors (see DESIGN.md). known_findings.json lists genuine defects recorded rather than repaired; 'fix:' commits in /repo are listed there as fixed.",
}
json.dump(m, open(os.path.join(ROOT, "MANIFEST.json"), "w"), indent=1)
print("MANIFEST.json: %d checks, %d not applicable" % (len(checks), len(m["not_applicable"])))
