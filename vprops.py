# Per-property configuration of the driver lives in props/<id>.json (worker binary, tiers, evidence texts).
import glob, json, os
PROPS = {}
for _f in sorted(glob.glob(os.path.join(os.path.dirname(os.path.abspath(__file__)), "props", "C*.json"))):
    PROPS[os.path.basename(_f)[:-5]] = json.load(open(_f))
