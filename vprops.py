# Per-property configuration of the driver: worker binary, tiers, evidence texts.
PROPS = {
    "C05": dict(
        bin="c05", level="exploration", crash="violation",
        technique="round-trip oracle over generated messages and chunked streams (Pack -> chunking reader -> Unpack, field-wise comparison, size alone vs in stream)",
        level_text="Exploration: the real Pack/Unpack of all 8 shipped protocol objects are driven with boundary-value and seeded random messages "
                   "(one field varied at a time over labelled classes, plus mixed messages) and with streams of 1..50 frames through four chunkings; "
                   "a deterministic oracle compares every field with the protocol's documented field set. Held on the inputs generated, not a proof over all inputs.",
        level_note="Trusted: the per-protocol expectation table (what each protocol documents it carries) in harness/cmd/c05; gjson/protobuf/thrift libraries as linked; "
                   "websocket sub-protocols are exercised per message (their frame boundaries come from the websocket layer).",
        quick=dict(batches=8, timeout=600, floor=5000),
        thorough=dict(batches=32, timeout=1800, floor=100000),
        rule="each message varies one field (seq, mtype, method, status, meta, codec, body, pipe) over a labelled value class "
             "(boundary lengths, every byte value, punctuation, control bytes, UTF-8, extreme seq, every registered codec, pipes up to 255) "
             "or several fields at once (mixed); streams are 1..50 back-to-back frames; every message/stream is unpacked through 4 chunkings "
             "(whole, 1 byte, 7 bytes, PRNG). distinct_nontrivial = distinct (protocol, field=class) and (protocol, stream length) pairs actually executed.",
        assumptions=["documented field sets per protocol as encoded in harness/cmd/c05 (vary/expected): http maps metadata onto canonicalised single-valued headers and carries "
                     "no PUSH; thrift-struct has no codec/pipe; websocket sub-protocols carry no status (that is C04's business)",
                     "service methods are text except for raw"],
    ),
}
