# Per-property configuration of the driver: worker binary, tiers, evidence texts.
PROPS = {
    "C05": dict(
        bin="c05", level="exploration", crash="violation",
        technique="round-trip oracle over generated messages and chunked streams (Pack -> chunking reader -> Unpack, field-wise comparison, size alone vs in stream)",
        level_text="Exploration: the real Pack/Unpack of all 8 shipped protocol objects are driven with boundary-value and seeded random messages "
                   "(one field varied at a time over labelled classes, plus mixed messages) and with streams of 1..50 frames through four chunkings; "
                   "a deterministic oracle compares every field with the protocol's documented field set. Held on the inputs generated, not a proof over all inputs.",
        level_note="Trusted: the per-protocol expectation table (what each protocol documents it carries) in harness/cmd/c05; gjson/protobuf/thrift libraries as linked; "
                   "websocket sub-protocols are exercised per message (their frame boundaries come from the websocket layer).",
        quick=dict(batches=8, timeout=600, floor=5000),
        thorough=dict(batches=32, timeout=1800, floor=100000),
        rule="each message varies one field (seq, mtype, method, status, meta, codec, body, pipe) over a labelled value class "
             "(boundary lengths, every byte value, punctuation, control bytes, UTF-8, extreme seq, every registered codec, pipes up to 255) "
             "or several fields at once (mixed); streams are 1..50 back-to-back frames; every message/stream is unpacked through 4 chunkings "
             "(whole, 1 byte, 7 bytes, PRNG). distinct_nontrivial = distinct (protocol, field=class) and (protocol, stream length) pairs actually executed.",
        assumptions=["documented field sets per protocol as encoded in harness/cmd/c05 (vary/expected): http maps metadata onto canonicalised single-valued headers and carries "
                     "no PUSH; thrift-struct has no codec/pipe; websocket sub-protocols carry no status (that is C04's business)",
                     "service methods are text except for raw"],
    ),
    "C01": dict(
        bin="c01", level="exploration", crash="violation",
        quick=dict(batches=12, timeout=900, floor=5000),
        thorough=dict(batches=64, timeout=3600, floor=100000),
        technique="token-traffic oracle on real peers (self-consistent token/payload/metadata checks at callers, handlers and push receivers; canaries; measured context recycling; gate delays)",
        rule="a case is one traffic configuration (protocol x body kinds x filter pipe x sessions x goroutines x read chunking x logging x gate-delay rate) "
             "run with real peers over in-memory connections, both directions at once, Call / AsyncCall bursts on a shared channel / Push mixed; "
             "evaluations = calls and pushes issued; a configuration is non-trivial when >= 2 handlers were in flight at once and at least one pooled "
             "handler context was observed being reused; distinct_nontrivial counts distinct such configurations.",
        level_text="Exploration under stress: real sessions carry token traffic whose payload, metadata and expected reply are pure functions of the token; "
                   "callers, handlers (at entry and again at exit after yielding) and push receivers check self-consistency, so any byte of another message is detected "
                   "and attributed. Schedules are widened with seeded gate delays between critical sections. Held on the executions produced.",
        level_note="Only OK completions are judged (failed calls are C02/C04). Protocols through their public ProtoFunc over memconn; websocket stacks, TLS/KCP/QUIC transports not exercised here. "
                   "Payloads are printable ASCII (codec byte-transparency is C11).",
        assumptions=["in-memory net.Conn (harness/memconn) stands in for TCP", "handlers are harness code following the documented handler API"],
    ),
    "C14": dict(
        bin="c01", race=True, level="exploration", crash="violation", par=8,
        quick=dict(batches=6, timeout=1500, floor=3000, args=["-soup", "-lean"]),
        thorough=dict(batches=48, timeout=3600, floor=50000, args=["-soup", "-lean"]),
        technique="Go race detector (-race build of the real code) under token traffic plus an API soup on shared sessions; reports de-duplicated and classified by accessing frames",
        rule="the C01 traffic configurations run in a -race build with an API soup (SetID, Swap store/load/range, ages, GetSession/RangeSession/CountSession, Health, CloseNotify, concurrent Peer.Close) "
             "from 4 extra goroutines per session; evaluations = calls and pushes issued under the detector; non-trivial = configurations with >= 2 handlers in flight and context reuse observed; "
             "race reports are counted from the detector's log, de-duplicated by the pair of accessing frames.",
        level_text="Exploration with a sanitizer as the oracle: the race detector tracks happens-before on every execution produced; a report whose accessing frame is in an eRPC package "
                   "(or in third-party code reached only through eRPC) is a violation; a report between two harness frames makes the run a broken check. Only code reached is judged.",
        level_note="-race needs -gcflags=all=-d=checkptr=0 (router.go uintptr arithmetic). Harness monitors use atomics/mutexes and therefore add some happens-before edges that could hide a race; "
                   "the logger level is set once per process because SetLoggerLevel is documented as not concurrent-safe.",
        assumptions=["operations not documented as concurrent-safe (SetLoggerOutputter, route registration, filter/codec Reg) are not mixed in"],
    ),
}
